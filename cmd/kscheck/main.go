// kscheck explores all interleavings (preemption-bounded) of concurrent key-store calls. It is built with an overlay
// that compiles x/did/client/crypto/keystore.go against the scheduler shims (see gen_overlay.sh).
//
//	kscheck explore <quick|thorough>   prints one line "KS-RESULT {json}"
//	kscheck replay <scenario> <choices>  re-executes one schedule and prints what it observed
package main

import (
	"encoding/hex"
	"encoding/json"
	"fmt"
	"os"
	"sort"
	"strings"
	"time"

	"github.com/anishathalye/porcupine"
	didcrypto "github.com/medibloc/panacea-core/v2/x/did/client/crypto"

	"verif/engine/sched"
	"verif/engine/sched/vtime"
)

var scratch = scratchDir()

type call struct {
	Op   string // save | load | loadbyaddr
	Key  string // save: key bytes (as string)
	Path int    // load: index into the pre-saved paths
	PW   string // password used by this call ("" = the default password)
}

type scenario struct {
	Name    string
	Pre     int      // keys saved before the threads start
	Threads [][]call // per thread: calls in program order
	PrePW   []string // passwords of the pre-saved keys (default: the default password)
}

var scenarios = []scenario{
	{"LoadByAddress||Save", 1, [][]call{{{Op: "loadbyaddr"}}, {{Op: "save", Key: "k1"}}}, nil},
	{"Save||Save", 0, [][]call{{{Op: "save", Key: "k1"}}, {{Op: "save", Key: "k2"}}}, nil},
	{"Load||Save", 1, [][]call{{{Op: "load", Path: 0}}, {{Op: "save", Key: "k1"}}}, nil},
	{"LoadByAddress||LoadByAddress||Save", 1, [][]call{{{Op: "loadbyaddr"}}, {{Op: "loadbyaddr"}}, {{Op: "save", Key: "k1"}}}, nil},
	{"Save;LoadByAddress||Save;LoadByAddress", 0, [][]call{{{Op: "save", Key: "k1"}, {Op: "loadbyaddr"}}, {{Op: "save", Key: "k2"}, {Op: "loadbyaddr"}}}, nil},
	{"Save||Save||LoadByAddress(empty)", 0, [][]call{{{Op: "save", Key: "k1"}}, {{Op: "save", Key: "k2"}}, {{Op: "loadbyaddr"}}}, nil},
	// one address saved twice under different passwords; a reader that presents the OLD password (the newest file does not open
	// with it) runs next to a writer: whatever the store does on the failure path, it must not block the writer for ever
	{"LoadByAddress(old password)||Save||LoadByAddress", 2, [][]call{{{Op: "loadbyaddr", PW: "old"}}, {{Op: "save", Key: "k1"}}, {{Op: "loadbyaddr"}}}, []string{"old", passwd}},
	{"Load(wrong password)||Save||LoadByAddress", 1, [][]call{{{Op: "load", Path: 0, PW: "bad"}}, {{Op: "save", Key: "k1"}}, {{Op: "loadbyaddr"}}}, nil},
}

type event struct {
	Thread    int
	Call      call
	CallT     int64
	RetT      int64
	OK        bool
	Key       string
	Path      string
	ErrKind   string
	TS        time.Time
	Completed bool
}

type ksInput struct {
	Op   string
	Key  string
	Path string
	TS   string
	PW   string
}
type ksOutput struct {
	OK      bool
	Key     string
	Path    string
	ErrKind string
}

func errKind(err error) string {
	if err == nil {
		return ""
	}
	s := err.Error()
	switch {
	case strings.Contains(s, "already exists"):
		return "exists"
	case strings.Contains(s, "file not found for address"), strings.Contains(s, "no such file"):
		return "notfound"
	case strings.Contains(s, "decode"):
		return "decode"
	case strings.Contains(s, "mac verification"):
		return "mac"
	}
	return "other:" + s
}

// stateStr / parse: the model state is the set of saved (path, key) pairs.
func stateStr(m map[string]string) string {
	var ks []string
	for k := range m {
		ks = append(ks, k)
	}
	sort.Strings(ks)
	var b strings.Builder
	for _, k := range ks {
		b.WriteString(k + "=" + m[k] + ";")
	}
	return b.String()
}

func parseState(s string) map[string]string {
	m := map[string]string{}
	for _, kv := range strings.Split(s, ";") {
		if kv == "" {
			continue
		}
		i := strings.LastIndex(kv, "=")
		m[kv[:i]] = kv[i+1:]
	}
	return m
}

func ksModel(init string, pathFor func(ts string) string) porcupine.Model {
	return porcupine.Model{
		Init: func() interface{} { return init },
		Step: func(state, input, output interface{}) (bool, interface{}) {
			st := parseState(state.(string))
			in := input.(ksInput)
			out := output.(ksOutput)
			switch in.Op {
			case "save":
				p := pathFor(in.TS)
				if _, ok := st[p]; ok {
					return !out.OK && out.ErrKind == "exists", state
				}
				if !out.OK || out.Path != p {
					return false, state
				}
				st[p] = in.Key + "\x00" + in.PW
				return true, stateStr(st)
			case "loadbyaddr":
				if len(st) == 0 {
					return !out.OK && out.ErrKind == "notfound", state
				}
				max := ""
				for p := range st {
					if p > max {
						max = p
					}
				}
				key, pw, _ := strings.Cut(st[max], "\x00")
				if pw != in.PW { // the newest file does not open with this password
					return !out.OK && out.ErrKind == "mac", state
				}
				return out.OK && out.Key == key, state
			case "load":
				k, ok := st[in.Path]
				if !ok {
					return !out.OK && out.ErrKind == "notfound", state
				}
				key, pw, _ := strings.Cut(k, "\x00")
				if pw != in.PW {
					return !out.OK && out.ErrKind == "mac", state
				}
				return out.OK && out.Key == key, state
			}
			return false, state
		},
		Equal: func(a, b interface{}) bool { return a.(string) == b.(string) },
	}
}

type runResult struct {
	x      *sched.Exec
	events []*event
	pre    map[string]string
	dir    string
}

const passwd = "pw"
const address = "addr"

// runOnce executes one scenario under the given choice prefix on a fresh scratch directory.
func runOnce(sc scenario, prefix []int) *runResult {
	dir, err := os.MkdirTemp(scratch, "ks-")
	if err != nil {
		panic(err)
	}
	defer os.RemoveAll(dir)
	ks, err := didcrypto.NewKeyStore(dir)
	if err != nil {
		panic(err)
	}
	res := &runResult{pre: map[string]string{}, dir: dir}
	var prePaths []string
	for i := 0; i < sc.Pre; i++ { // outside the scheduler: the shims fall through to the real primitives
		pw := passwd
		if i < len(sc.PrePW) {
			pw = sc.PrePW[i]
		}
		p, err := ks.Save(address, []byte(fmt.Sprintf("pre%d", i)), pw)
		if err != nil {
			panic(err)
		}
		res.pre[p] = fmt.Sprintf("pre%d", i) + "\x00" + pw
		prePaths = append(prePaths, p)
	}
	vtime.Reset()
	var bodies []func()
	for ti, calls := range sc.Threads {
		ti, calls := ti, calls
		bodies = append(bodies, func() {
			x := sched.Current()
			for _, c := range calls {
				if c.PW == "" {
					c.PW = passwd
				}
				ev := &event{Thread: ti, Call: c, CallT: x.Now()} // c carries its effective password
				res.events = append(res.events, ev)
				switch c.Op {
				case "save":
					p, err := ks.Save(address, []byte(c.Key), c.PW)
					ev.OK, ev.Path, ev.ErrKind = err == nil, p, errKind(err)
					ev.TS = vtime.LastNow[ti]
				case "loadbyaddr":
					k, err := ks.LoadByAddress(address, c.PW)
					ev.OK, ev.Key, ev.ErrKind = err == nil, string(k), errKind(err)
				case "load":
					ev.Path = prePaths[c.Path]
					k, err := ks.Load(prePaths[c.Path], c.PW)
					ev.OK, ev.Key, ev.ErrKind = err == nil, string(k), errKind(err)
				}
				ev.RetT = x.Now()
				ev.Completed = true
			}
		})
	}
	res.x = sched.Run(prefix, bodies)
	return res
}

func pathForTS(dir string) func(ts string) string {
	return func(ts string) string {
		return fmt.Sprintf("%s/UTC--%s--%s.json", dir, ts, address)
	}
}

type viol struct {
	Kind   string `json:"kind"`
	Sig    string `json:"signature"`
	Msg    string `json:"message"`
	Replay any    `json:"replay"`
}

// judge evaluates one execution: deadlock freedom and linearizability of the complete history.
func judge(sc scenario, r *runResult) (string, string) {
	if r.x.Diverged != "" {
		return "harness", r.x.Diverged
	}
	if r.x.Deadlock {
		return "deadlock", fmt.Sprintf("no thread can proceed; blocked: %v; schedule: %s", r.x.Blocked, r.x.TraceString())
	}
	var ops []porcupine.Operation
	for _, ev := range r.events {
		if !ev.Completed {
			return "incomplete", "a call did not complete although the execution ended"
		}
		in := ksInput{Op: ev.Call.Op, Key: ev.Call.Key, Path: ev.Path, PW: ev.Call.PW}
		if in.PW == "" {
			in.PW = passwd
		}
		if ev.Call.Op == "save" {
			in.TS = ev.TS.UTC().Format("2006-01-02T15-04-05.000000000Z")
			in.Path = ""
		}
		ops = append(ops, porcupine.Operation{ClientId: ev.Thread, Input: in, Call: ev.CallT, Output: ksOutput{OK: ev.OK, Key: ev.Key, Path: ev.Path, ErrKind: ev.ErrKind}, Return: ev.RetT})
	}
	// file names are a pure function of the instant the call observed; the pre-saved paths keep their real names
	pf := pathForTS(r.dir)
	model := ksModel(stateStr(r.pre), pf)
	if !porcupine.CheckOperations(model, ops) {
		var hs []string
		for _, ev := range r.events {
			hs = append(hs, fmt.Sprintf("t%d %s(%s)[%d,%d] -> ok=%v key=%q err=%s", ev.Thread, ev.Call.Op, ev.Call.Key, ev.CallT, ev.RetT, ev.OK, ev.Key, ev.ErrKind))
		}
		return "not-linearizable", fmt.Sprintf("history %v has no linearization w.r.t. the reference key store; schedule: %s", hs, r.x.TraceString())
	}
	return "", ""
}

func outcomeOf(r *runResult) string {
	var parts []string
	for _, ev := range r.events {
		parts = append(parts, fmt.Sprintf("%d:%s:%v:%s:%s", ev.Thread, ev.Call.Op, ev.OK, ev.Key, ev.ErrKind))
	}
	sort.Strings(parts)
	return strings.Join(parts, "|")
}

func main() {
	if len(os.Args) < 2 {
		fmt.Fprintln(os.Stderr, "usage: kscheck explore <tier> | kscheck replay <scenario-index> <choices,comma-separated>")
		os.Exit(2)
	}
	_ = os.MkdirAll(scratch, 0o755)
	if os.Args[1] == "replay" {
		var si int
		fmt.Sscan(os.Args[2], &si)
		var prefix []int
		if len(os.Args) > 3 && os.Args[3] != "" {
			for _, s := range strings.Split(os.Args[3], ",") {
				var c int
				fmt.Sscan(s, &c)
				prefix = append(prefix, c)
			}
		}
		r := runOnce(scenarios[si], prefix)
		kind, msg := judge(scenarios[si], r)
		fmt.Printf("scenario %s choices %v: trace %s\n", scenarios[si].Name, r.x.Choices, r.x.TraceString())
		if kind != "" {
			fmt.Printf("VIOLATION kind=%s %s\n", kind, msg)
			os.Exit(1)
		}
		fmt.Println("no violation")
		return
	}
	thorough := len(os.Args) > 2 && os.Args[2] == "thorough"
	bound, clockBound := 2, 1
	budget := 80 * time.Second
	if thorough {
		bound, clockBound = 3, 2
		budget = 12 * time.Minute
	}
	deadline := time.Now().Add(budget)
	cov := map[string]any{}
	var viols []viol
	totalExec, totalPoints := 0, 0
	perScenario := map[string]any{}
	capped := false
	var samples []any
	for si, sc := range scenarios {
		outcomes := map[string]int{}
		seen := map[string]bool{}
		// self-test of determinism: the default schedule twice must give identical observations
		a, b := runOnce(sc, nil), runOnce(sc, nil)
		if a.x.TraceString() != b.x.TraceString() || outcomeOf(a) != outcomeOf(b) {
			fmt.Fprintf(os.Stderr, "HARNESS ERROR: scenario %s is not deterministic under a fixed schedule\n", sc.Name)
			os.Exit(2)
		}
		completedBound := -1
		for bnd := 0; bnd <= bound; bnd++ {
			e := &sched.Explorer{Bound: bnd, ClockBound: clockBound, Stop: func() bool { return time.Now().After(deadline) }}
			e.Run = func(prefix []int) *sched.Exec {
				r := runOnce(sc, prefix)
				kind, msg := judge(sc, r)
				outcomes[outcomeOf(r)]++
				if kind == "harness" {
					fmt.Fprintf(os.Stderr, "HARNESS ERROR: %s\n", msg)
					os.Exit(2)
				}
				if kind != "" {
					sig := fmt.Sprintf("keystore-%s:%s", kind, sc.Name)
					if !seen[sig] {
						// believe it only if the same schedule fails every time
						for i := 0; i < 5; i++ {
							r2 := runOnce(sc, r.x.Choices)
							k2, _ := judge(sc, r2)
							if k2 != kind {
								fmt.Fprintf(os.Stderr, "HARNESS ERROR: schedule %v of %s failed once (%s) but not on replay (%s)\n", r.x.Choices, sc.Name, kind, k2)
								os.Exit(2)
							}
						}
						seen[sig] = true
						var cs []string
						for _, c := range r.x.Choices {
							cs = append(cs, fmt.Sprint(c))
						}
						viols = append(viols, viol{Kind: "keystore-" + kind, Sig: sig, Msg: fmt.Sprintf("scenario %s, preemption bound %d: %s", sc.Name, bnd, msg),
							Replay: map[string]any{"engine": "E4", "scenario_index": si, "scenario": sc.Name, "choices": strings.Join(cs, ","), "cmd": fmt.Sprintf("bin/kscheck replay %d %s", si, strings.Join(cs, ","))}})
					}
				}
				return r.x
			}
			e.Check = func(x *sched.Exec) {}
			e.Explore()
			totalExec += e.Executions
			if e.MaxPoints > totalPoints {
				totalPoints = e.MaxPoints
			}
			if e.Capped {
				capped = true
				break
			}
			completedBound = bnd
			if len(seen) > 0 {
				break // the first counterexample has the fewest preemptions
			}
		}
		perScenario[sc.Name] = map[string]any{"preemption_bound_completed": completedBound, "distinct_outcomes": len(outcomes)}
		if len(samples) < 3 {
			samples = append(samples, map[string]any{"scenario": sc.Name, "default_schedule": a.x.TraceString()})
		}
		if len(outcomes) < 2 && len(seen) == 0 && sc.Name != "Load||Save" {
			fmt.Fprintf(os.Stderr, "HARNESS ERROR: vacuous exploration of %s: a single observable outcome\n", sc.Name)
			os.Exit(2)
		}
	}
	cov["executions"] = totalExec
	cov["max_points"] = totalPoints
	cov["scenarios"] = perScenario
	cov["capped"] = capped
	cov["samples"] = samples
	cov["preemption_bound"] = bound
	cov["clock_deviation_bound"] = clockBound
	out, _ := json.Marshal(map[string]any{"coverage": cov, "viols": viols})
	fmt.Printf("KS-RESULT %s\n", out)
	_ = hex.EncodeToString
}

func scratchDir() string {
	if s := os.Getenv("VERIF_OUT"); s != "" {
		return s + "/.scratch"
	}
	return "/verif/.scratch"
}
