// pcheck is the dispatcher: pcheck <ID> <quick|thorough> | pcheck replay <file>
package main

import (
	"fmt"
	"io"
	"log"
	"os"
	"runtime/debug"

	"verif/checks"
	"verif/engine/world"
)

func main() {
	if len(os.Args) < 2 {
		fmt.Fprintln(os.Stderr, "usage: pcheck <ID> <quick|thorough> | pcheck replay <file>")
		os.Exit(2)
	}
	log.SetOutput(io.Discard) // x/did logs "[warn] unknown key type" through the std logger
	code := 2
	defer func() {
		if r := recover(); r != nil {
			fmt.Fprintf(os.Stderr, "HARNESS ERROR: panic: %v\n%s\n", r, debug.Stack())
			code = 2
		}
		world.CleanScratch()
		os.Exit(code)
	}()
	if os.Args[1] == "C14-digest" {
		for k, v := range checks.C14Digest() {
			fmt.Printf("%s=%s\n", k, v)
		}
		code = 0
		return
	}
	if os.Args[1] == "shard" {
		var i, n int
		fmt.Sscan(os.Args[4], &i)
		fmt.Sscan(os.Args[5], &n)
		code = checks.ShardMain(os.Args[2], os.Args[3], i, n)
		return
	}
	if os.Args[1] == "replica" {
		code = checks.ReplicaMain()
		return
	}
	if os.Args[1] == "replay" {
		code = checks.ReplayFile(os.Args[2])
		return
	}
	tier := checks.Tier{Name: "quick"}
	if len(os.Args) > 2 && os.Args[2] == "thorough" {
		tier = checks.Tier{Name: "thorough", Thorough: true}
	}
	f, ok := checks.Registry[os.Args[1]]
	if !ok {
		fmt.Fprintf(os.Stderr, "unknown check %q\n", os.Args[1])
		return
	}
	code = f(tier)
}
