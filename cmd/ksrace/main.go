// ksrace is the free-running race-detector pass of C20 (auxiliary evidence): the same harness bodies as kscheck, but
// real goroutines, the real sync package and `go build -race`. It also hammers the stateless validation / sign-bytes /
// address-conversion code of the custom modules and the query handlers of a real application from many goroutines while
// another goroutine executes blocks. A reported race or a runtime deadlock is definitive; silence proves nothing.
package main

import (
	"bytes"
	"fmt"
	"os"
	"runtime"
	"sync"

	tmsecp "github.com/cometbft/cometbft/crypto/secp256k1"
	sdk "github.com/cosmos/cosmos-sdk/types"
	aoltypes "github.com/medibloc/panacea-core/v2/x/aol/types"
	didcrypto "github.com/medibloc/panacea-core/v2/x/did/client/crypto"
	didtypes "github.com/medibloc/panacea-core/v2/x/did/types"
	pnfttypes "github.com/medibloc/panacea-core/v2/x/pnft/types"

	"verif/checks"
	"verif/engine/world"
)

func keystorePass(iters int) {
	for it := 0; it < iters; it++ {
		dir, err := os.MkdirTemp(scratchDir(), "ksrace-")
		if err != nil {
			panic(err)
		}
		ks, err := didcrypto.NewKeyStore(dir)
		if err != nil {
			panic(err)
		}
		p0, err := ks.Save("addr", []byte("pre"), "pw")
		if err != nil {
			panic(err)
		}
		var wg sync.WaitGroup
		run := func(f func()) {
			wg.Add(1)
			go func() { defer wg.Done(); f() }()
		}
		run(func() { _, _ = ks.Save("addr", []byte("k1"), "pw") })
		run(func() { _, _ = ks.Save("addr", []byte("k2"), "pw") })
		run(func() { _, _ = ks.LoadByAddress("addr", "pw") })
		run(func() { _, _ = ks.LoadByAddress("addr", "pw") })
		run(func() { _, _ = ks.Load(p0, "pw") })
		wg.Wait()
		os.RemoveAll(dir)
	}
}

func statelessPass(iters int) {
	world.Init()
	A := world.NewAccount("A")
	msgs := []sdk.Msg{
		aoltypes.NewMsgCreateTopic("a", "d", A.Bech),
		aoltypes.NewMsgAddWriter("a", "m", "d", A.Bech, A.Bech),
		aoltypes.NewMsgAddRecordRequest("a", []byte("k"), []byte("v"), A.Bech, A.Bech, ""),
		pnfttypes.NewMsgCreateDenomRequest("d", "S", "n", "", "", "", A.Bech, ""),
		&didtypes.MsgDeactivateDIDRequest{Did: "did:panacea:7Prd74ry1Uct87nZqL3ny7aR7Cg46JamVbJgk8azVgUm", VerificationMethodId: "x", Signature: []byte{1}, FromAddress: A.Bech},
	}
	doc := didtypes.NewDIDDocument("did:panacea:7Prd74ry1Uct87nZqL3ny7aR7Cg46JamVbJgk8azVgUm")
	// a rich document shared between goroutines: three contexts (not in lexicographic order), controller list, two methods,
	// a service; validation and sign-bytes code must only READ it
	richKey := tmsecp.GenPrivKeySecp256k1([]byte("race-rich"))
	richDID := didtypes.NewDID(richKey.PubKey().Bytes())
	vm1 := didtypes.NewVerificationMethod(richDID+"#key1", "EcdsaSecp256k1VerificationKey2019", richDID, richKey.PubKey().Bytes())
	vm2 := didtypes.NewVerificationMethod(richDID+"#key2", "EcdsaSecp256k1VerificationKey2019", richDID, richKey.PubKey().Bytes())
	rich := didtypes.NewDIDDocument(richDID, didtypes.WithVerificationMethods([]*didtypes.VerificationMethod{&vm1, &vm2}),
		didtypes.WithAuthentications([]didtypes.VerificationRelationship{didtypes.NewVerificationRelationship(vm1.Id), didtypes.NewVerificationRelationshipDedicated(vm2)}),
		didtypes.WithServices([]*didtypes.Service{{Id: "s2", Type: "T", ServiceEndpoint: "https://b.example"}, {Id: "s1", Type: "T", ServiceEndpoint: "https://a.example"}}),
		didtypes.WithController(richDID))
	rich.Contexts = &didtypes.JSONStringOrStrings{didtypes.ContextDIDV1, "https://w3id.org/security/suites/secp256k1-2019/v1", "https://w3id.org/security/suites/ed25519-2018/v1"}
	richSig, err := didtypes.Sign(&rich, 0, richKey)
	if err != nil {
		panic(err)
	}
	richCreate := &didtypes.MsgCreateDIDRequest{Did: richDID, Document: &rich, VerificationMethodId: vm1.Id, Signature: richSig, FromAddress: A.Bech}
	richUpdate := &didtypes.MsgUpdateDIDRequest{Did: richDID, Document: &rich, VerificationMethodId: vm1.Id, Signature: richSig, FromAddress: A.Bech}
	// a document that validation REFUSES (a method without key type): refusing must not touch it either
	noTypeVM := didtypes.NewVerificationMethod(richDID+"#key9", "", richDID, richKey.PubKey().Bytes())
	noType := didtypes.NewDIDDocument(richDID, didtypes.WithVerificationMethods([]*didtypes.VerificationMethod{&vm1, &noTypeVM}),
		didtypes.WithAuthentications([]didtypes.VerificationRelationship{didtypes.NewVerificationRelationship(vm1.Id)}))
	noTypeSig, err := didtypes.Sign(&noType, 0, richKey)
	if err != nil {
		panic(err)
	}
	wantNoType := append([]byte{}, noType.GetSignBytes()...)
	wantDocBytes := append([]byte{}, rich.GetSignBytes()...) // taken before any validation call
	wantCreate := append([]byte{}, richCreate.GetSignBytes()...)
	wantUpdate := append([]byte{}, richUpdate.GetSignBytes()...)
	var wg sync.WaitGroup
	// DID proofs made and verified concurrently on different documents: every valid proof must verify. Many more
	// goroutines than processors, so that goroutines share per-P state (sync.Pool caches) and get switched often.
	prev := runtime.GOMAXPROCS(2)
	for g := 0; g < 48; g++ {
		wg.Add(1)
		go func(g int) {
			defer wg.Done()
			priv := tmsecp.GenPrivKeySecp256k1([]byte(fmt.Sprintf("race-key-%d", g)))
			d := didtypes.NewDIDDocument(didtypes.NewDID(priv.PubKey().Bytes()))
			for i := 0; i < iters*2; i++ {
				if i%3 == 0 {
					runtime.Gosched()
				}
				sig, err := didtypes.Sign(&d, uint64(i), priv)
				if err != nil {
					panic(err)
				}
				if _, ok := didtypes.Verify(sig, &d, uint64(i), priv.PubKey()); !ok {
					fmt.Println("SNAPSHOT VIOLATION: a valid DID proof was rejected while other goroutines were signing/verifying (shared signing-bytes state)")
					os.Exit(1)
				}
			}
		}(g)
	}
	wg.Wait()
	runtime.GOMAXPROCS(prev)
	for g := 0; g < 16; g++ {
		wg.Add(1)
		go func() {
			defer wg.Done()
			for i := 0; i < iters; i++ {
				for _, m := range msgs {
					_ = m.ValidateBasic()
					_ = m.GetSigners()
					_ = m.(interface{ GetSignBytes() []byte }).GetSignBytes()
				}
				_ = didtypes.ValidateDID(doc.Id)
				_ = doc.Valid()
				_ = doc.GetSignBytes()
				_ = richCreate.ValidateBasic()
				_ = richUpdate.ValidateBasic()
				_ = rich.Valid()
				if !bytes.Equal(rich.GetSignBytes(), wantDocBytes) || !bytes.Equal(richCreate.GetSignBytes(), wantCreate) || !bytes.Equal(richUpdate.GetSignBytes(), wantUpdate) {
					fmt.Println("SNAPSHOT VIOLATION: the sign bytes of a shared DID document / message changed while other goroutines validated it (validation writes to its input)")
					os.Exit(1)
				}
				_ = noType.Valid()
				if _, ok := didtypes.Verify(noTypeSig, &noType, 0, richKey.PubKey()); !ok || !bytes.Equal(noType.GetSignBytes(), wantNoType) {
					fmt.Println("SNAPSHOT VIOLATION: validating a (refused) shared DID document changed it: a proof made before validation no longer verifies")
					os.Exit(1)
				}
				if _, ok := didtypes.Verify(richSig, &rich, 0, richKey.PubKey()); !ok {
					fmt.Println("SNAPSHOT VIOLATION: a proof made before validation no longer verifies on the shared document")
					os.Exit(1)
				}
				_, _ = sdk.AccAddressFromBech32(A.Bech)
				_ = A.Addr.String()
			}
		}()
	}
	wg.Wait()
}

func main() {
	iters := 100
	if len(os.Args) > 1 {
		fmt.Sscan(os.Args[1], &iters)
	}
	_ = os.MkdirAll(scratchDir(), 0o755)
	keystorePass(iters)
	statelessPass(iters)
	checks.QueryHammer(iters / 10)
	fmt.Println("ksrace: done")
}

func scratchDir() string {
	if s := os.Getenv("VERIF_OUT"); s != "" {
		return s + "/.scratch"
	}
	return "/verif/.scratch"
}
