#!/bin/bash
# run.sh <ID> <quick|thorough>  |  run.sh replay <file>
# Regenerates overlays from /repo's working tree, rebuilds, runs the check.
# exit 0 held / only known findings; 1 VIOLATION; 2 harness or build error.
. /verif/env.sh
cd /verif
ID=$1; TIER=${2:-quick}
./gen_overlay.sh || { echo "overlay generation failed" >&2; exit 2; }
mkdir -p $BIN
build_main() {
  go build $MODFLAG -overlay $GEN/overlay.json -o $BIN/pcheck ./cmd/pcheck
}
build_ks() {
  go build $MODFLAG -overlay $GEN/overlay_ks.json -o $BIN/kscheck ./cmd/kscheck && \
  go build $MODFLAG -race -overlay $GEN/overlay_race.json -o $BIN/ksrace ./cmd/ksrace
}
if [ "$ID" = "C20" ] || { [ "$ID" = "replay" ] && grep -q '"engine": "E4"' "$2" 2>/dev/null; }; then
  build_ks 2> $GEN/build_ks.log || { cat $GEN/build_ks.log >&2; echo "BUILD FAILED (kscheck) - not a verdict" >&2; exit 2; }
fi
build_main 2> $GEN/build.log || { cat $GEN/build.log >&2; echo "BUILD FAILED - not a verdict" >&2; exit 2; }
if [ "$ID" = "replay" ]; then
  exec $BIN/pcheck replay "$2"
fi
export VERIF_TIER=$TIER
$BIN/pcheck "$ID" "$TIER" 2> $GEN/run_$ID.err
rc=$?
cat $GEN/run_$ID.err >&2
if [ $rc -ne 0 ] && [ $rc -ne 1 ] && grep -q "fatal error: concurrent map\|DATA RACE" $GEN/run_$ID.err; then
  # the tree under test keeps package-level mutable state that the parallel in-process explorers tripped over:
  # repeat with a single worker so that a verdict (not a crash) is produced
  echo "re-running $ID with a single worker (package-level mutable state detected in the tree under test)" >&2
  VERIF_WORKERS=1 $BIN/pcheck "$ID" "$TIER"
  rc=$?
fi
exit $rc
