package checks

import (
	"bytes"
	"fmt"
	"math"
	"sort"
	"strings"

	sdk "github.com/cosmos/cosmos-sdk/types"
	"github.com/medibloc/panacea-core/v2/types/compkey"
	aoltypes "github.com/medibloc/panacea-core/v2/x/aol/types"

	"verif/engine/report"
	"verif/engine/world"
)

// rawKey is the harness's own CompositeKey: an arbitrary tuple of byte strings.
type rawKey struct{ parts [][]byte }

func (k rawKey) ByteSlices() [][]byte { return k.parts }
func (k *rawKey) FromByteSlices(b [][]byte) error {
	k.parts = b
	return nil
}
func (k rawKey) Strings() []string {
	out := make([]string, len(k.parts))
	for i, p := range k.parts {
		out[i] = string(p)
	}
	return out
}
func (k *rawKey) FromStrings(s []string) error {
	k.parts = nil
	for _, x := range s {
		k.parts = append(k.parts, []byte(x))
	}
	return nil
}

func tupleEq(a, b [][]byte) bool {
	if len(a) != len(b) {
		return false
	}
	for i := range a {
		if !bytes.Equal(a[i], b[i]) {
			return false
		}
	}
	return true
}

func tupleStr(t [][]byte) string {
	var s []string
	for _, p := range t {
		s = append(s, fmt.Sprintf("%x", p))
	}
	return "(" + strings.Join(s, ",") + ")"
}

// guard runs f and converts a panic into an error string.
func guard(f func()) (panicked string) {
	defer func() {
		if r := recover(); r != nil {
			panicked = fmt.Sprint(r)
		}
	}()
	f()
	return ""
}

func C18(t Tier) int {
	run := report.NewRun("C18", t.Name, "exploration", "E3")
	evals, nontrivial := 0, 0
	var samples []any
	fail := func(kind, sig, format string, a ...any) {
		run.Add(report.Viol{Kind: kind, Sig: sig, Msg: fmt.Sprintf(format, a...), Replay: map[string]any{"check": "C18", "case": fmt.Sprintf(format, a...)}})
	}

	// ---- 1. all tuples of 0..4 components over a length-byte alphabet, component length <= maxLen ----
	alpha := []byte{0x00, 0x01, 0x02, 0xff}
	maxLen := 2
	maxComp := 4
	if t.Thorough {
		alpha = []byte{0x00, 0x01, 0x02, 0x03, 0xff}
		// 31 component values, up to 4 components: ~953k tuples
	}
	var comps [][]byte
	comps = append(comps, []byte{})
	var gen func(cur []byte, n int)
	gen = func(cur []byte, n int) {
		if n == 0 {
			comps = append(comps, append([]byte{}, cur...))
			return
		}
		for _, b := range alpha {
			gen(append(cur, b), n-1)
		}
	}
	for l := 1; l <= maxLen; l++ {
		gen(nil, l)
	}
	type enc struct {
		bz    string
		tuple [][]byte
	}
	var all []enc
	var tuples func(cur [][]byte, n int)
	tuples = func(cur [][]byte, n int) {
		if n == 0 {
			tp := append([][]byte{}, cur...)
			k := &rawKey{parts: tp}
			bz, err := compkey.Encode(k)
			evals++
			if err != nil {
				fail("encode-error", "encode-error:small", "Encode%s returned %v", tupleStr(tp), err)
				return
			}
			var out rawKey
			if err := compkey.Decode(bz, &out); err != nil {
				fail("roundtrip", "roundtrip:decode-error", "Decode(Encode%s) returned %v", tupleStr(tp), err)
			} else if !tupleEq(out.parts, tp) {
				fail("roundtrip", "roundtrip:mismatch", "Decode(Encode%s) = %s", tupleStr(tp), tupleStr(out.parts))
			}
			// encoding of the first k components is a byte prefix of the full encoding (<= direction)
			for kk := 0; kk <= len(tp); kk++ {
				p, err := compkey.PartialEncode(k, kk)
				if err != nil {
					fail("partial", "partial:error", "PartialEncode(%s,%d) returned %v", tupleStr(tp), kk, err)
					continue
				}
				if !bytes.HasPrefix(bz, p) {
					fail("prefix", "prefix:own", "PartialEncode(%s,%d)=%x is not a prefix of Encode=%x", tupleStr(tp), kk, p, bz)
				}
				// and equals the encoding of the truncated tuple
				q, _ := compkey.Encode(&rawKey{parts: tp[:kk]})
				if !bytes.Equal(p, q) {
					fail("partial", "partial:not-truncation", "PartialEncode(%s,%d)=%x != Encode(first %d)=%x", tupleStr(tp), kk, p, kk, q)
				}
			}
			if _, err := compkey.PartialEncode(k, len(tp)+1); err == nil {
				fail("partial", "partial:overlong-accepted", "PartialEncode(%s,%d) with more values than components returned no error", tupleStr(tp), len(tp)+1)
			}
			all = append(all, enc{string(bz), tp})
			return
		}
		for _, c := range comps {
			tuples(append(cur, c), n-1)
		}
	}
	for n := 0; n <= maxComp; n++ {
		tuples(nil, n)
	}
	// injectivity: group by bytes
	sort.Slice(all, func(i, j int) bool { return all[i].bz < all[j].bz })
	for i := 1; i < len(all); i++ {
		if all[i].bz == all[i-1].bz {
			fail("collision", "collision", "tuples %s and %s encode to the same bytes %x", tupleStr(all[i-1].tuple), tupleStr(all[i].tuple), all[i].bz)
			break
		}
	}
	// prefix exactness for ALL pairs (t,u) and all k, decided by counting: for every k-component prefix tuple p,
	//   #{u : enc(p) byte-prefix of enc(u)}  must equal  #{u : len(u)>=k and u[:k]==p}
	// (the <= inclusion was checked element-wise above, so equal cardinalities give set equality).
	nc := len(comps)
	countWithTuplePrefix := func(k int) int { // tuples of length k..maxComp sharing a fixed k-prefix
		c := 0
		for n := k; n <= maxComp; n++ {
			c += int(math.Pow(float64(nc), float64(n-k)))
		}
		return c
	}
	bzs := make([]string, len(all))
	for i := range all {
		bzs[i] = all[i].bz
	}
	seenPrefix := map[string]bool{}
	pairsDecided := 0
	for _, e := range all {
		for k := 0; k <= len(e.tuple); k++ {
			p, _ := compkey.Encode(&rawKey{parts: e.tuple[:k]})
			ps := string(p)
			key := fmt.Sprintf("%d|%s", k, ps)
			if seenPrefix[key] {
				continue
			}
			seenPrefix[key] = true
			lo := sort.SearchStrings(bzs, ps)
			hi := lo + sort.Search(len(bzs)-lo, func(i int) bool { return !strings.HasPrefix(bzs[lo+i], ps) })
			got := hi - lo
			want := countWithTuplePrefix(k)
			pairsDecided += len(all)
			if got != want {
				// find a witness
				for i := lo; i < hi; i++ {
					u := all[i].tuple
					if len(u) < k || !tupleEq(u[:k], e.tuple[:k]) {
						fail("prefix", "prefix:foreign", "PartialEncode(%s,%d)=%x is a byte-prefix of Encode%s although the first %d components differ", tupleStr(e.tuple), k, p, tupleStr(u), k)
						break
					}
				}
				if got < want {
					fail("prefix", "prefix:missing", "only %d of %d tuples sharing the first %d components of %s have its partial encoding as prefix", got, want, k, tupleStr(e.tuple))
				}
			}
		}
	}
	nontrivial += len(seenPrefix)
	samples = append(samples, map[string]any{"tuple": tupleStr(all[len(all)/2].tuple), "encoding": fmt.Sprintf("%x", all[len(all)/2].bz)})

	// ---- 2. every component length 0..255 (and 256+ for rejection), one and two components ----
	fills := []func(l int) byte{func(int) byte { return 0x00 }, func(int) byte { return 0xff }, func(l int) byte { return byte(l) }}
	mk := func(l int, f func(int) byte) []byte { return bytes.Repeat([]byte{f(l)}, l) }
	for l := 0; l <= 255; l++ {
		for fi, f := range fills {
			for _, second := range []int{-1, 0, 1, l, 255} {
				tp := [][]byte{mk(l, f)}
				if second >= 0 {
					tp = append(tp, mk(second, f))
				}
				evals++
				nontrivial++
				bz, err := compkey.Encode(&rawKey{parts: tp})
				if err != nil {
					fail("encode-error", "encode-error:len", "Encode of component lengths %d/%d (fill %d) returned %v", l, second, fi, err)
					continue
				}
				var out rawKey
				if err := compkey.Decode(bz, &out); err != nil || !tupleEq(out.parts, tp) {
					fail("roundtrip", "roundtrip:len", "round trip failed for component lengths %d/%d (fill %d): err=%v", l, second, fi, err)
				}
			}
		}
	}
	// oversize lengths incl. those whose low 8 / low 16 bits look like a legal length (truncating conversions)
	for _, l := range []int{256, 257, 511, 512, 65535, 65536, 65537, 65606, 65791, 65792, 131072, 196628, 1 << 24, 1<<24 + 7} {
		for pos := 0; pos < 3; pos++ {
			tp := [][]byte{[]byte("a"), []byte("b"), []byte("c")}
			tp[pos] = bytes.Repeat([]byte{0x61}, l)
			evals++
			nontrivial++
			var bz []byte
			var err error
			if p := guard(func() { bz, err = compkey.Encode(&rawKey{parts: tp}) }); p != "" {
				fail("panic", "panic:encode-oversize", "Encode with a %d-byte component panicked: %s", l, p)
				continue
			}
			if err == nil {
				fail("truncation", "truncation:encode", "Encode accepted a %d-byte component at position %d (encoding length %d): silently truncated", l, pos, len(bz))
			}
			if pos < 2 {
				var perr error
				if p := guard(func() { _, perr = compkey.PartialEncode(&rawKey{parts: tp}, pos+1) }); p != "" {
					fail("panic", "panic:partial-oversize", "PartialEncode with a %d-byte component panicked: %s", l, p)
				} else if perr == nil {
					fail("truncation", "truncation:partial", "PartialEncode accepted a %d-byte component", l)
				}
			}
		}
	}

	// ---- 3. all byte strings up to length L over a small alphabet offered to the decoder ----
	dalpha := []byte{0, 1, 2, 3, 255}
	L := 5
	if t.Thorough {
		L = 7
	}
	var walk func(cur []byte)
	decoded := 0
	walk = func(cur []byte) {
		evals++
		var out rawKey
		var err error
		if p := guard(func() { err = compkey.Decode(cur, &out) }); p != "" {
			fail("panic", "panic:decode", "Decode(%x) panicked: %s", cur, p)
		} else if err == nil {
			decoded++
			re, e2 := compkey.Encode(&rawKey{parts: out.parts})
			if e2 != nil || !bytes.Equal(re, cur) {
				fail("decode-lossy", "decode-lossy", "Decode(%x) = %s whose re-encoding is %x", cur, tupleStr(out.parts), re)
			}
		}
		if len(cur) == L {
			return
		}
		for _, b := range dalpha {
			walk(append(append([]byte{}, cur...), b))
		}
	}
	walk(nil)
	nontrivial += decoded

	// ---- 4. the four typed AOL keys over their own domain ----
	addrs := [][]byte{{0x01}, bytes.Repeat([]byte{0xab}, 20), bytes.Repeat([]byte{0xab}, 21), bytes.Repeat([]byte{0x00}, 20), bytes.Repeat([]byte{0xff}, 255)}
	charset := "ABCDEFGHIJKLMNOPQRSTUVWXYZabcdefghijklmnopqrstuvwxyz0123456789._-"
	var topics []string
	for _, c := range charset {
		topics = append(topics, string(c))
	}
	for _, c := range charset {
		for _, d := range charset {
			topics = append(topics, string(c)+string(d))
		}
	}
	topics = append(topics, strings.Repeat("a", 69), strings.Repeat("-", 70), strings.Repeat(".", 70), strings.Repeat("Z", 70))
	offsets := []uint64{0, 1, 255, 256, 1<<32 - 1, 1 << 32, math.MaxUint64 - 1, math.MaxUint64}
	typed := 0
	for ai, a := range addrs {
		tset := topics
		if ai > 1 && !t.Thorough {
			tset = topics[:70]
			tset = append(append([]string{}, tset...), topics[len(topics)-4:]...)
		}
		for _, tn := range tset {
			// topic key
			{
				k := aoltypes.TopicCompositeKey{OwnerAddress: a, TopicName: tn}
				var out aoltypes.TopicCompositeKey
				evals++
				typed++
				bz, err := compkey.Encode(&k)
				if err != nil {
					fail("typed", "typed:topic-encode", "Encode(topic %x/%s): %v", a, tn, err)
				} else if err := compkey.Decode(bz, &out); err != nil || !bytes.Equal(out.OwnerAddress, a) || out.TopicName != tn {
					fail("typed", "typed:topic-roundtrip", "binary round trip of topic key (%x,%s) failed: %v", a, tn, err)
				}
				str := compkey.EncodeToString(&k, aoltypes.GenesisKeySeparator)
				var out2 aoltypes.TopicCompositeKey
				if err := compkey.DecodeFromString(str, aoltypes.GenesisKeySeparator, &out2); err != nil || !bytes.Equal(out2.OwnerAddress, a) || out2.TopicName != tn {
					fail("typed", "typed:topic-string", "string round trip of topic key (%x,%s) via %q failed: %v", a, tn, str, err)
				}
			}
			for _, off := range offsets {
				k := aoltypes.RecordCompositeKey{OwnerAddress: a, TopicName: tn, Offset: off}
				var out aoltypes.RecordCompositeKey
				evals++
				bz, err := compkey.Encode(&k)
				if err != nil {
					fail("typed", "typed:record-encode", "Encode(record): %v", err)
					continue
				}
				if err := compkey.Decode(bz, &out); err != nil || !bytes.Equal(out.OwnerAddress, a) || out.TopicName != tn || out.Offset != off {
					fail("typed", "typed:record-roundtrip", "binary round trip of record key (%x,%s,%d) failed: %v", a, tn, off, err)
				}
				str := compkey.EncodeToString(&k, aoltypes.GenesisKeySeparator)
				var out2 aoltypes.RecordCompositeKey
				if err := compkey.DecodeFromString(str, aoltypes.GenesisKeySeparator, &out2); err != nil || !bytes.Equal(out2.OwnerAddress, a) || out2.TopicName != tn || out2.Offset != off {
					fail("typed", "typed:record-string", "string round trip of record key (%x,%s,%d) failed: %v", a, tn, off, err)
				}
			}
			for _, wa := range addrs {
				k := aoltypes.WriterCompositeKey{OwnerAddress: a, TopicName: tn, WriterAddress: wa}
				var out aoltypes.WriterCompositeKey
				evals++
				bz, err := compkey.Encode(&k)
				if err != nil {
					fail("typed", "typed:writer-encode", "Encode(writer): %v", err)
					continue
				}
				if err := compkey.Decode(bz, &out); err != nil || !bytes.Equal(out.OwnerAddress, a) || out.TopicName != tn || !bytes.Equal(out.WriterAddress, wa) {
					fail("typed", "typed:writer-roundtrip", "binary round trip of writer key failed: %v", err)
				}
				str := compkey.EncodeToString(&k, aoltypes.GenesisKeySeparator)
				var out2 aoltypes.WriterCompositeKey
				if err := compkey.DecodeFromString(str, aoltypes.GenesisKeySeparator, &out2); err != nil || !bytes.Equal(out2.OwnerAddress, a) || out2.TopicName != tn || !bytes.Equal(out2.WriterAddress, wa) {
					fail("typed", "typed:writer-string", "string round trip of writer key failed: %v", err)
				}
			}
		}
		k := aoltypes.OwnerCompositeKey{OwnerAddress: a}
		var out aoltypes.OwnerCompositeKey
		bz, err := compkey.Encode(&k)
		if err != nil || compkey.Decode(bz, &out) != nil || !bytes.Equal(out.OwnerAddress, a) {
			fail("typed", "typed:owner-roundtrip", "owner key round trip failed for %x", a)
		}
	}
	nontrivial += typed
	// the string form used in genesis files must round-trip for EVERY value the message validators admit: all topic
	// names of one and two bytes over all 256 byte values are offered to the real validator (MsgCreateTopic.ValidateBasic);
	// every admitted name goes through EncodeToString / DecodeFromString of the topic, writer and record keys
	admitted := 0
	ownerA := sdk.AccAddress(bytes.Repeat([]byte{0xab}, 20))
	tryName := func(tn string) {
		evals++
		if aoltypes.NewMsgCreateTopic(tn, "", ownerA.String()).ValidateBasic() != nil {
			return
		}
		admitted++
		tk := aoltypes.TopicCompositeKey{OwnerAddress: ownerA, TopicName: tn}
		var t2 aoltypes.TopicCompositeKey
		if err := compkey.DecodeFromString(compkey.EncodeToString(&tk, aoltypes.GenesisKeySeparator), aoltypes.GenesisKeySeparator, &t2); err != nil || t2.TopicName != tn || !bytes.Equal(t2.OwnerAddress, ownerA) {
			fail("string-form", sfSig("topic", tn), "topic name %q is admitted by the message validator but its genesis string key %q does not decode back (err=%v)", tn, compkey.EncodeToString(&tk, aoltypes.GenesisKeySeparator), err)
		}
		rk := aoltypes.RecordCompositeKey{OwnerAddress: ownerA, TopicName: tn, Offset: 7}
		var r2 aoltypes.RecordCompositeKey
		if err := compkey.DecodeFromString(compkey.EncodeToString(&rk, aoltypes.GenesisKeySeparator), aoltypes.GenesisKeySeparator, &r2); err != nil || r2.TopicName != tn || r2.Offset != 7 {
			fail("string-form", sfSig("record", tn), "record key of topic %q does not round-trip through its genesis string form (err=%v)", tn, err)
		}
		wk := aoltypes.WriterCompositeKey{OwnerAddress: ownerA, TopicName: tn, WriterAddress: ownerA}
		var w2 aoltypes.WriterCompositeKey
		if err := compkey.DecodeFromString(compkey.EncodeToString(&wk, aoltypes.GenesisKeySeparator), aoltypes.GenesisKeySeparator, &w2); err != nil || w2.TopicName != tn {
			fail("string-form", sfSig("writer", tn), "writer key of topic %q does not round-trip through its genesis string form (err=%v)", tn, err)
		}
	}
	for a := 0; a < 256; a++ {
		tryName(string([]byte{byte(a)}))
		for b := 0; b < 256; b++ {
			tryName(string([]byte{byte(a), byte(b)}))
		}
	}
	if admitted < 65 {
		fail("harness", "harness:validator-admits-too-little", "the topic validator admitted only %d of the one/two-byte names", admitted)
	}
	nontrivial += admitted
	// typed decoders: wrong component counts and malformed components must yield an error, never a panic or a
	// silently different key
	good := sdk.AccAddress(bytes.Repeat([]byte{0xab}, 20))
	typedDecoders := map[string]func([][]byte) (compkey.CompositeKey, error){
		"owner": func(b [][]byte) (compkey.CompositeKey, error) {
			var k aoltypes.OwnerCompositeKey
			return &k, k.FromByteSlices(b)
		},
		"topic": func(b [][]byte) (compkey.CompositeKey, error) {
			var k aoltypes.TopicCompositeKey
			return &k, k.FromByteSlices(b)
		},
		"writer": func(b [][]byte) (compkey.CompositeKey, error) {
			var k aoltypes.WriterCompositeKey
			return &k, k.FromByteSlices(b)
		},
		"record": func(b [][]byte) (compkey.CompositeKey, error) {
			var k aoltypes.RecordCompositeKey
			return &k, k.FromByteSlices(b)
		},
	}
	typedFromStrings := map[string]func([]string) (compkey.CompositeKey, error){
		"owner": func(b []string) (compkey.CompositeKey, error) {
			var k aoltypes.OwnerCompositeKey
			return &k, k.FromStrings(b)
		},
		"topic": func(b []string) (compkey.CompositeKey, error) {
			var k aoltypes.TopicCompositeKey
			return &k, k.FromStrings(b)
		},
		"writer": func(b []string) (compkey.CompositeKey, error) {
			var k aoltypes.WriterCompositeKey
			return &k, k.FromStrings(b)
		},
		"record": func(b []string) (compkey.CompositeKey, error) {
			var k aoltypes.RecordCompositeKey
			return &k, k.FromStrings(b)
		},
	}
	partMenu := [][]byte{{}, {0x01}, good, bytes.Repeat([]byte{0x02}, 255), bytes.Repeat([]byte{0x03}, 256)}
	for l := 0; l <= 10; l++ {
		partMenu = append(partMenu, bytes.Repeat([]byte{0x09}, l))
	}
	for _, name := range []string{"owner", "topic", "writer", "record"} {
		dec := typedDecoders[name]
		var rec func(cur [][]byte, n int)
		rec = func(cur [][]byte, n int) {
			if n == 0 {
				evals++
				in := append([][]byte{}, cur...)
				var k compkey.CompositeKey
				var err error
				if p := guard(func() { k, err = dec(in) }); p != "" {
					lens := []int{}
					for _, c := range in {
						lens = append(lens, len(c))
					}
					fail("panic", fmt.Sprintf("panic:%s.FromByteSlices", name), "%s.FromByteSlices with component lengths %v panicked: %s", name, lens, p)
					return
				}
				if err == nil {
					nontrivial++
					// accepted: re-encoding must give back exactly the input (no silent truncation / defaulting)
					if !tupleEq(k.ByteSlices(), in) {
						lens := []int{}
						for _, c := range in {
							lens = append(lens, len(c))
						}
						fail("truncation", fmt.Sprintf("truncation:%s.FromByteSlices", name), "%s.FromByteSlices accepted component lengths %v but represents %s instead of %s", name, lens, tupleStr(k.ByteSlices()), tupleStr(in))
					}
					// accepted bytes are a key of that type: its string form (the genesis form) must decode back to the same key
					var strs []string
					var back compkey.CompositeKey
					var serr error
					if p := guard(func() {
						strs = k.Strings()
						back, serr = typedFromStrings[name](strs)
					}); p != "" {
						fail("panic", fmt.Sprintf("panic:%s.string-form", name), "%s: string form of an accepted key panicked: %s", name, p)
					} else if serr != nil || !tupleEq(back.ByteSlices(), in) {
						lens := []int{}
						for _, c := range in {
							lens = append(lens, len(c))
						}
						fail("typed", fmt.Sprintf("typed:%s.accepted-bytes-without-string-form", name), "%s.FromByteSlices accepted component lengths %v but the string form %q does not decode back to it (err=%v)", name, lens, strs, serr)
					}
				}
				return
			}
			for _, p := range partMenu {
				rec(append(cur, p), n-1)
			}
		}
		for n := 0; n <= 4; n++ {
			if n == 4 && !t.Thorough {
				continue
			}
			rec(nil, n)
		}
	}

	// ---- 5. the string form as the chain itself writes it: x/aol ExportGenesis on a chain holding, for two owners, every topic
	// name of a menu of look-alike names (equal length differing in the last character(s), prefixes / extensions of one another,
	// shorter-but-lexically-later) with two records and a writer each. Every exported record / writer / topic key must decode
	// (typed string decoder) to exactly one stored entry with the same payload, the module's own import must reproduce the
	// stores byte for byte (the comparison of C08, on this state) ----
	genesisKeys := 0
	{
		e := newDomEnv()
		w := world.New(world.Options{Accounts: []*world.Account{e.A, e.B, e.W, e.F}})
		names := []string{"a", "b", "ab", "ac", "abc", "b-", "data-2023", "data-2024", "data-2124", "x.y", "x-y", "lab-results", "vitals"}
		type rec struct{ owner, topic, key string }
		want := map[string]rec{} // "<owner>/<topic>/<offset>" -> record key bytes
		stored := 0              // topics actually created
		for _, o := range []*world.Account{e.A, e.B} {
			for _, n := range names {
				msgs := []sdk.Msg{aoltypes.NewMsgCreateTopic(n, "", o.Bech), aoltypes.NewMsgAddWriter(n, "", "", o.Bech, o.Bech)}
				for i := 0; i < 2; i++ {
					msgs = append(msgs, aoltypes.NewMsgAddRecordRequest(n, []byte(fmt.Sprintf("%s|%s|%d", o.Name, n, i)), []byte("v"), o.Bech, o.Bech, ""))
				}
				if res := w.Send(world.TxSpec{Msgs: msgs, Signers: []*world.Account{o}, Fee: aolFee, Gas: 3000000}); res.Code != 0 {
					// every name of the menu is inside the documented charset and length: a tree that refuses one is reported, not crashed on
					fail("genesis-form", "genesis-form:valid-name-refused", "the chain refused to create topic %q (a name the documented charset admits) with a writer and two records: %s", n, firstLineOf(res.Log))
					continue
				}
				stored++
				for i := 0; i < 2; i++ {
					want[fmt.Sprintf("%s/%s/%d", o.Bech, n, i)] = rec{o.Bech, n, fmt.Sprintf("%s|%s|%d", o.Name, n, i)}
				}
			}
		}
		w.NextBlock()
		st, _, _, err := w.Export()
		if err != nil {
			fail("genesis-form", "genesis-form:export-error", "export failed: %v", err)
		} else if gs, err := sections(st); err != nil {
			fail("genesis-form", "genesis-form:export-error", "exported app state is not JSON: %v", err)
		} else {
			var ag aoltypes.GenesisState
			w.App.AppCodec().MustUnmarshalJSON(gs["aol"], &ag)
			seen := map[string]bool{}
			for ks, r := range ag.Records {
				genesisKeys++
				var ck aoltypes.RecordCompositeKey
				if err := compkey.DecodeFromString(ks, aoltypes.GenesisKeySeparator, &ck); err != nil {
					fail("genesis-form", "genesis-form:record-key-undecodable", "exported record key %q does not decode: %v", ks, err)
					continue
				}
				canon := fmt.Sprintf("%s/%s/%d", ck.OwnerAddress.String(), ck.TopicName, ck.Offset)
				wr, ok := want[canon]
				if !ok || string(r.Key) != wr.key {
					fail("genesis-form", "genesis-form:record-under-foreign-key", "exported record key %q carries the record with key bytes %q; the chain stored %q there", ks, r.Key, wr.key)
					continue
				}
				seen[canon] = true
			}
			if len(seen) != len(want) {
				fail("genesis-form", "genesis-form:records-missing", "the export holds %d of the %d stored records under their own keys", len(seen), len(want))
			}
			for ks := range ag.Topics {
				genesisKeys++
				var tk aoltypes.TopicCompositeKey
				if err := compkey.DecodeFromString(ks, aoltypes.GenesisKeySeparator, &tk); err != nil {
					fail("genesis-form", "genesis-form:topic-key-undecodable", "exported topic key %q does not decode: %v", ks, err)
				}
			}
			if len(ag.Topics) != stored || len(ag.Writers) != stored {
				fail("genesis-form", "genesis-form:entries-missing", "the export holds %d topics and %d writers, the chain %d and %d", len(ag.Topics), len(ag.Writers), stored, stored)
			}
			exportImportCheck(w, []*world.Account{e.A, e.B, e.W, e.F}, func(kind, sig, format string, a ...any) {
				fail("genesis-form", "genesis-form:"+sig, format, a...)
			})
		}
		evals += genesisKeys
		nontrivial += genesisKeys
	}
	run.Coverage["genesis_keys_through_real_export"] = genesisKeys

	run.Coverage["evaluations"] = evals
	run.Coverage["distinct_nontrivial"] = nontrivial
	run.Coverage["rule"] = "complete enumeration of (1) all tuples of 0..4 components over a length-byte alphabet with component length <= 2: round trip, injectivity by grouping, prefix-exactness for all pairs decided by counting byte-prefix ranges; (2) every component length 0..255 x 3 fill patterns x 5 second components, and 256+ for rejection; (3) every byte string up to length L over {0,1,2,3,255} offered to Decode; (4) the four typed AOL keys over address lengths 1/20/21/255, all topic names of length <= 2 over the validator charset plus 69/70-byte names, boundary offsets, binary and '/'-separated string round trips, and every typed decoder over a 16-entry component menu for 0..4 components; (5) the string keys of a real x/aol genesis export of a chain holding 13 look-alike topic names under two owners (every key decodes to the entry stored there; import reproduces the stores). non-trivial = distinct partial-encoding prefixes + inputs the decoder accepted + typed keys that round-tripped"
	run.Coverage["samples"] = samples
	run.Coverage["exhaustive"] = true
	run.Coverage["tuples"] = len(all)
	run.Coverage["ordered_pairs_decided"] = pairsDecided
	run.Coverage["decoder_inputs_max_len"] = L
	run.Assumptions = []string{"component length <= 2 over a 4/5-byte alphabet for the all-pairs part; full length range 0..255 is covered for 1- and 2-component tuples"}
	return run.Finish()
}

// sfSig: one signature per key type for names that contain the genesis separator, per name otherwise.
func sfSig(kind, name string) string {
	if strings.Contains(name, aoltypes.GenesisKeySeparator) {
		return "string-form:" + kind + ":admitted-name-contains-the-genesis-separator"
	}
	return fmt.Sprintf("string-form:%s:%q", kind, name)
}
