package checks

import (
	"bytes"
	"fmt"
	"sort"
	"strings"

	sdk "github.com/cosmos/cosmos-sdk/types"
	authtypes "github.com/cosmos/cosmos-sdk/x/auth/types"
	banktypes "github.com/cosmos/cosmos-sdk/x/bank/types"
	"github.com/cosmos/cosmos-sdk/x/feegrant"
	aoltypes "github.com/medibloc/panacea-core/v2/x/aol/types"
	didtypes "github.com/medibloc/panacea-core/v2/x/did/types"
	pnfttypes "github.com/medibloc/panacea-core/v2/x/pnft/types"

	"verif/engine/report"
	"verif/engine/world"
)

// allBalances returns address(bech32) -> coins string for every account that holds anything, plus the total supply.
func allBalances(w *world.World) (map[string]sdk.Coins, sdk.Coins) {
	ctx := w.Ctx()
	out := map[string]sdk.Coins{}
	w.App.BankKeeper.IterateAllBalances(ctx, func(addr sdk.AccAddress, c sdk.Coin) bool {
		out[addr.String()] = out[addr.String()].Add(c)
		return false
	})
	var supply sdk.Coins
	w.App.BankKeeper.IterateTotalSupply(ctx, func(c sdk.Coin) bool {
		supply = supply.Add(c)
		return false
	})
	return out, supply
}

type c15entry struct {
	name string
	mk   func(actor *world.Account, pos int) sdk.Msg
}

func C15(t Tier) int {
	run := report.NewRun("C15", t.Name, "exploration", "E1")
	e := newDomEnv()
	k := e.DidKey
	feeCollector := authtypes.NewModuleAddress(authtypes.FeeCollectorName).String()
	menu := []c15entry{
		{"aol-ok", func(a *world.Account, pos int) sdk.Msg {
			return aoltypes.NewMsgCreateTopic(fmt.Sprintf("p%d-%s", pos, a.Name), "", a.Bech)
		}},
		{"aol-fail", func(a *world.Account, pos int) sdk.Msg {
			return aoltypes.NewMsgAddWriter("nosuchtopic", "", "", e.B.Bech, a.Bech)
		}},
		{"did-ok", func(a *world.Account, pos int) sdk.Msg {
			// a DID per position (keys k1..k3), relayed by the actor
			did := didtypes.NewDID([]byte(fmt.Sprintf("c15-did-%d-%s", pos, a.Name)))
			doc := k.doc("D1", did)
			return &didtypes.MsgCreateDIDRequest{Did: did, Document: doc, VerificationMethodId: k.vmID(did, 1), Signature: k.sign(doc, 0, 1), FromAddress: a.Bech}
		}},
		{"did-fail", func(a *world.Account, pos int) sdk.Msg {
			did := didtypes.NewDID([]byte("c15-did-never-created"))
			return &didtypes.MsgDeactivateDIDRequest{Did: did, VerificationMethodId: k.vmID(did, 1), Signature: []byte{1, 2, 3}, FromAddress: a.Bech}
		}},
		{"did-stranger-update-fail", func(a *world.Account, pos int) sdk.Msg {
			// an update of the populated base's DID proven only by a key that the SUBMITTED document lists (k2), not the stored one
			doc := k.doc("D2", e.Did)
			return &didtypes.MsgUpdateDIDRequest{Did: e.Did, Document: doc, VerificationMethodId: k.vmID(e.Did, 2), Signature: k.sign(doc, 0, 2), FromAddress: a.Bech}
		}},
		{"pnft-ok", func(a *world.Account, pos int) sdk.Msg {
			return pnfttypes.NewMsgCreateDenomRequest(fmt.Sprintf("den%d%s", pos, a.Name), "S", "n", "", "", "", a.Bech, "")
		}},
		{"pnft-fail", func(a *world.Account, pos int) sdk.Msg {
			return pnfttypes.NewMsgMintPNFTRequest("nosuchdenom", "t", "n", "", "", "", a.Bech, "")
		}},
	}
	fees := []sdk.Coins{nil, sdk.NewCoins(sdk.NewInt64Coin("umed", 1000)), sdk.NewCoins(sdk.NewInt64Coin("umed", 1000), sdk.NewInt64Coin("uxyz", 5))}
	bases := map[string]func() *world.World{
		"empty":     func() *world.World { return world.New(world.Options{Accounts: []*world.Account{e.A, e.B, e.W, e.F}}) },
		"populated": func() *world.World { return populated(e) },
		// token (d,t) was minted by A and now belongs to B; denom d still belongs to A
		"handed-over": func() *world.World {
			w := populated(e)
			if res := w.Send(world.TxSpec{Msgs: []sdk.Msg{pnfttypes.NewMsgTransferPNFTRequest("d", "t", e.A.Bech, e.B.Bech)}, Signers: []*world.Account{e.A}}); res.Code != 0 {
				panic("handed-over base: " + res.Log)
			}
			return w
		},
		// the topic owner A has granted fee payer F a fee allowance, and F cannot afford a 1000umed fee itself: a transaction that
		// names no fee granter is simply refused for insufficient funds - nobody else pays
		"sponsored": func() *world.World {
			w := populated(e)
			must := func(spec world.TxSpec) {
				if res := w.Send(spec); res.Code != 0 {
					panic("sponsored base: " + res.Log)
				}
			}
			grant, err := feegrant.NewMsgGrantAllowance(&feegrant.BasicAllowance{}, e.A.Addr, e.F.Addr)
			if err != nil {
				panic(err)
			}
			must(world.TxSpec{Msgs: []sdk.Msg{grant}, Signers: []*world.Account{e.A}})
			bal := w.App.BankKeeper.GetBalance(w.Ctx(), e.F.Addr, "umed")
			must(world.TxSpec{Msgs: []sdk.Msg{banktypes.NewMsgSend(e.F.Addr, e.B.Addr, sdk.NewCoins(sdk.NewCoin("umed", bal.Amount.SubRaw(500))))}, Signers: []*world.Account{e.F}})
			return w
		},
	}
	// a second fee payer whose address bytes compare to the writer's the other way round than F's do
	var otherSide *world.Account
	for _, c := range []*world.Account{e.B, e.A} {
		if (bytes.Compare(c.Addr, e.W.Addr) < 0) != (bytes.Compare(e.F.Addr, e.W.Addr) < 0) {
			otherSide = c
			break
		}
	}
	maxLen := 3
	evals, okTx, failedTx := 0, 0, 0
	var samples []any
	outcomes := map[string]int{}
	for _, bn := range sortedKeys(bases) {
		w := bases[bn]()
		base := dumpCustom(w)
		baseAnswers := customAnswers(e, w)
		var seq func(cur []int)
		seq = func(cur []int) {
			if len(cur) > 0 {
				for arr := 0; arr < 7; arr++ {
					for fi, fee := range fees {
						// build the message list for this arrangement
						var msgs []sdk.Msg
						var signers []*world.Account
						var names []string
						addSigner := func(a *world.Account) {
							for _, s := range signers {
								if s == a {
									return
								}
							}
							signers = append(signers, a)
						}
						expectOK := true
						switch arr {
						case 0: // single signer A
							for i, mi := range cur {
								msgs = append(msgs, menu[mi].mk(e.A, i))
								names = append(names, menu[mi].name)
							}
							addSigner(e.A)
						case 1: // add-record with a named fee payer first: signers [F, W]; remaining messages by W
							msgs = append(msgs, aoltypes.NewMsgAddRecordRequest("a", []byte("k15"), []byte("v15"), e.W.Bech, e.A.Bech, e.F.Bech))
							names = append(names, "add-record(feepayer=F)")
							addSigner(e.F)
							addSigner(e.W)
							if bn == "empty" {
								expectOK = false
							}
							for i, mi := range cur[1:] {
								msgs = append(msgs, menu[mi].mk(e.W, i))
								names = append(names, menu[mi].name)
							}
						case 3: // as 1, with a fee payer whose address sorts on the OTHER side of the writer's (signer ordering slips)
							fp := otherSide
							if fp == nil {
								continue
							}
							msgs = append(msgs, aoltypes.NewMsgAddRecordRequest("a", []byte("k15"), []byte("v15"), e.W.Bech, e.A.Bech, fp.Bech))
							names = append(names, "add-record(feepayer="+fp.Name+")")
							addSigner(fp)
							addSigner(e.W)
							if bn == "empty" {
								expectOK = false
							}
							for i, mi := range cur[1:] {
								msgs = append(msgs, menu[mi].mk(e.W, i))
								names = append(names, menu[mi].name)
							}
						case 4: // messages of A first, then an add-record with a named fee payer that is NOT the first message:
							// signers [A, F, W]; the transaction's fee payer is its first signer A, never the co-signer F
							for i, mi := range cur {
								msgs = append(msgs, menu[mi].mk(e.A, i))
								names = append(names, menu[mi].name)
							}
							addSigner(e.A)
							msgs = append(msgs, aoltypes.NewMsgAddRecordRequest("a", []byte("k15"), []byte("v15"), e.W.Bech, e.A.Bech, e.F.Bech))
							names = append(names, "add-record(feepayer=F,last)")
							addSigner(e.F)
							addSigner(e.W)
							if bn == "empty" {
								expectOK = false
							}
						case 6: // explicit transactions of A whose LAST message acts on something A no longer owns: the whole transaction fails
							if len(cur) > 2 || (len(cur) == 2 && cur[0] != 0) || bn != "handed-over" {
								continue
							}
							exIdx := cur[0] // explicit transactions are indexed by the one- and (0,x) two-entry sequences
							if len(cur) == 2 {
								exIdx = len(menu) + cur[1]
							}
							ex := []struct {
								name string
								msgs []sdk.Msg
							}{
								{"mint-then-burn-token-of-B", []sdk.Msg{pnfttypes.NewMsgMintPNFTRequest("d", "t9", "n", "", "", "", e.A.Bech, ""), pnfttypes.NewMsgBurnPNFTRequest("d", "t", e.A.Bech)}},
								{"mint-then-transfer-token-of-B", []sdk.Msg{pnfttypes.NewMsgMintPNFTRequest("d", "t9", "n", "", "", "", e.A.Bech, ""), pnfttypes.NewMsgTransferPNFTRequest("d", "t", e.A.Bech, e.W.Bech)}},
								{"create-topic-then-delete-denom-holding-a-token-of-B", []sdk.Msg{aoltypes.NewMsgCreateTopic("x15", "", e.A.Bech), pnfttypes.NewMsgDeleteDenomRequest("d", e.A.Bech)}},
								{"hand-over-denom-then-mint", []sdk.Msg{pnfttypes.NewMsgTransferRequest("d", e.A.Bech, e.B.Bech), pnfttypes.NewMsgMintPNFTRequest("d", "t8", "n", "", "", "", e.A.Bech, "")}},
								{"delete-writer-then-add-writer-twice", []sdk.Msg{aoltypes.NewMsgDeleteWriter("a", e.W.Bech, e.A.Bech), aoltypes.NewMsgAddWriter("a", "w", "", e.W.Bech, e.A.Bech), aoltypes.NewMsgAddWriter("a", "w", "", e.W.Bech, e.A.Bech)}},
								// the DID of the populated base is at sequence 0: after the update the deactivation (or the same update again) is
								// proven over a sequence that is no longer current, so the third message fails and nothing may stay
								{"create-topic-then-update-did-then-deactivate-over-the-stale-sequence", []sdk.Msg{aoltypes.NewMsgCreateTopic("y15", "", e.A.Bech),
									&didtypes.MsgUpdateDIDRequest{Did: e.Did, Document: k.doc("D5", e.Did), VerificationMethodId: k.vmID(e.Did, 1), Signature: k.sign(k.doc("D5", e.Did), 0, 1), FromAddress: e.A.Bech},
									&didtypes.MsgDeactivateDIDRequest{Did: e.Did, VerificationMethodId: k.vmID(e.Did, 1), Signature: k.sign(&didtypes.DIDDocument{Id: e.Did}, 0, 1), FromAddress: e.A.Bech}}},
								// key1 is demoted to a plain verification method by the first update (shape D2: authentication = key2 only);
								// the second update is proven with key1 over the right sequence: it must fail, and with it the whole transaction
								{"create-topic-then-demote-key1-then-update-proven-with-demoted-key1", []sdk.Msg{aoltypes.NewMsgCreateTopic("w15", "", e.A.Bech),
									&didtypes.MsgUpdateDIDRequest{Did: e.Did, Document: k.doc("D2", e.Did), VerificationMethodId: k.vmID(e.Did, 1), Signature: k.sign(k.doc("D2", e.Did), 0, 1), FromAddress: e.A.Bech},
									&didtypes.MsgUpdateDIDRequest{Did: e.Did, Document: k.doc("D5", e.Did), VerificationMethodId: k.vmID(e.Did, 1), Signature: k.sign(k.doc("D5", e.Did), 1, 1), FromAddress: e.A.Bech}}},
								{"create-topic-then-the-same-did-update-twice", []sdk.Msg{aoltypes.NewMsgCreateTopic("z15", "", e.A.Bech),
									&didtypes.MsgUpdateDIDRequest{Did: e.Did, Document: k.doc("D5", e.Did), VerificationMethodId: k.vmID(e.Did, 1), Signature: k.sign(k.doc("D5", e.Did), 0, 1), FromAddress: e.A.Bech},
									&didtypes.MsgUpdateDIDRequest{Did: e.Did, Document: k.doc("D5", e.Did), VerificationMethodId: k.vmID(e.Did, 1), Signature: k.sign(k.doc("D5", e.Did), 0, 1), FromAddress: e.A.Bech}}},
							}
							if len(ex) > 2*len(menu) {
								panic("c15: more explicit transactions than sequences to index them")
							}
							if exIdx >= len(ex) {
								continue
							}
							msgs = append(msgs, ex[exIdx].msgs...)
							for range ex[exIdx].msgs {
								names = append(names, ex[exIdx].name)
							}
							addSigner(e.A)
							expectOK = false
						case 5: // the same one-shot message twice (+ the rest of the sequence): the repetition fails, so nothing may stay
							if len(cur) != 1 {
								continue
							}
							rep := []struct {
								name string
								msg  sdk.Msg
							}{
								{"create-topic-twice", aoltypes.NewMsgCreateTopic("rep", "", e.A.Bech)},
								{"transfer-denom-twice", pnfttypes.NewMsgTransferRequest("d", e.A.Bech, e.B.Bech)},
								{"transfer-pnft-twice", pnfttypes.NewMsgTransferPNFTRequest("d", "t", e.A.Bech, e.B.Bech)},
								{"delete-writer-twice", aoltypes.NewMsgDeleteWriter("a", e.W.Bech, e.A.Bech)},
								{"create-denom-twice", pnfttypes.NewMsgCreateDenomRequest("rep", "S", "n", "", "", "", e.A.Bech, "")},
								{"burn-pnft-twice", pnfttypes.NewMsgBurnPNFTRequest("d", "t", e.A.Bech)},
							}
							if cur[0] >= len(rep) {
								continue
							}
							r := rep[cur[0]]
							msgs = append(msgs, r.msg, r.msg)
							names = append(names, r.name, r.name)
							addSigner(e.A)
							expectOK = false
						case 2: // messages of two different signers in one transaction
							for i, mi := range cur {
								a := e.A
								if i%2 == 1 {
									a = e.B
								}
								msgs = append(msgs, menu[mi].mk(a, i))
								names = append(names, menu[mi].name+"/"+a.Name)
								addSigner(a)
							}
						}
						if bn == "sponsored" && arr == 1 && !fee.IsZero() {
							expectOK = false // F cannot pay; the allowance may only be used when the transaction names A as granter
						}
						for i, mi := range cur {
							if arr == 5 || arr == 6 {
								break
							}
							if (arr == 1 || arr == 3) && i == 0 {
								continue
							}
							if strings.HasSuffix(menu[mi].name, "-fail") {
								expectOK = false
							}
						}
						// a client signs in the order the messages ask for (GetSigners, de-duplicated)
						expectedPayer := signers[0]
						var order []*world.Account
						seenS := map[string]bool{}
						for _, m := range msgs {
							for _, sg := range m.GetSigners() {
								if seenS[string(sg)] {
									continue
								}
								seenS[string(sg)] = true
								for _, acc := range []*world.Account{e.A, e.B, e.W, e.F} {
									if acc.Addr.Equals(sg) {
										order = append(order, acc)
									}
								}
							}
						}
						signers = order
						evals++
						balBefore, supBefore := allBalances(w)
						discard := w.Fork()
						res := w.Send(world.TxSpec{Msgs: msgs, Signers: signers, Fee: fee})
						balAfter, supAfter := allBalances(w)
						after := dumpCustom(w)
						discard()
						label := fmt.Sprintf("%s|arr%d|fee%d|%s", bn, arr, fi, strings.Join(names, ","))
						sigBase := fmt.Sprintf("arr%d:first=%s", arr, names[0])
						got := res.Code == 0
						if got != expectOK {
							run.Add(report.Viol{Kind: "unexpected-result", Sig: "unexpected-result:" + bn + ":" + sigBase, Msg: fmt.Sprintf("%s: expected success=%v, got code=%d %s", label, expectOK, res.Code, firstLineOf(res.Log)), Replay: map[string]any{"case": label}})
							continue
						}
						if got {
							okTx++
							outcomes["ok"]++
						} else {
							failedTx++
							outcomes[fmt.Sprintf("failed/%s/%d", res.Codespace, res.Code)]++
							if diff := sameCustom(base, after); diff != "" {
								run.Add(report.Viol{Kind: "partial-effect", Sig: "partial-effect:" + sigBase, Msg: fmt.Sprintf("%s: the transaction failed (code %d) but custom state changed: %s", label, res.Code, diff), Replay: map[string]any{"case": label}})
							}
							// ... and no effect as seen through the modules' own read paths either (a keeper that answers from
							// memory it filled during the failed transaction would show here, not in the raw store)
							if q := customAnswers(e, w); q != baseAnswers {
								run.Add(report.Viol{Kind: "partial-effect-visible", Sig: "partial-effect-visible:" + sigBase, Msg: fmt.Sprintf("%s: the transaction failed (code %d) but the custom modules' query answers changed: %s", label, res.Code, firstDiffLine(baseAnswers, q)), Replay: map[string]any{"case": label}})
							}
						}
						if !supBefore.IsEqual(supAfter) {
							run.Add(report.Viol{Kind: "supply-changed", Sig: "supply-changed:" + sigBase, Msg: fmt.Sprintf("%s: total supply %s -> %s", label, supBefore, supAfter), Replay: map[string]any{"case": label}})
						}
						payer := expectedPayer.Bech
						addrs := map[string]bool{}
						for a := range balBefore {
							addrs[a] = true
						}
						for a := range balAfter {
							addrs[a] = true
						}
						// a payer that cannot afford the declared fee makes the ante handler refuse the transaction: nothing is charged
						charged := fee
						if !balBefore[payer].IsAllGTE(fee) {
							charged = nil
						}
						for a := range addrs {
							want := balBefore[a]
							switch a {
							case payer:
								want = want.Sub(charged...)
							case feeCollector:
								want = want.Add(charged...)
							}
							if !want.IsEqual(balAfter[a]) {
								who := a
								for _, acc := range []*world.Account{e.A, e.B, e.W, e.F} {
									if acc.Bech == a {
										who = acc.Name
									}
								}
								if a == feeCollector {
									who = "fee_collector"
								}
								run.Add(report.Viol{Kind: "balance-changed", Sig: fmt.Sprintf("balance-changed:%s:fee%d:%s", who, fi, sigBase),
									Msg:    fmt.Sprintf("%s: balance of %s is %s, expected %s (fee %s must be charged to %s)", label, who, balAfter[a], want, fee, expectedPayer.Name),
									Replay: map[string]any{"case": label}})
							}
						}
						if len(samples) < 5 && evals%97 == 0 {
							samples = append(samples, map[string]any{"base": bn, "arrangement": arr, "fee": fee.String(), "messages": names, "code": res.Code})
						}
					}
				}
			}
			if len(cur) == maxLen {
				return
			}
			for i := range menu {
				seq(append(append([]int{}, cur...), i))
			}
		}
		seq(nil)
	}
	// Gas-limit sweep: a transaction that runs out of gas at ANY point fails as a whole. For a few multi-message transactions
	// every gas limit from 0 to past what the transaction needs (in steps of `stride`) is tried on a fork of the populated state:
	// either the transaction succeeds and the custom state equals the state after the same transaction with ample gas, or it
	// fails and the custom state is the base state - never something in between - and balances move by the fee only.
	sweepEvals, sweepOK, sweepFailed := 0, 0, 0
	{
		stride := uint64(5)
		if t.Thorough {
			stride = 1
		}
		w := populated(e)
		base := dumpCustom(w)
		doc5 := k.doc("D5", e.Did)
		sweeps := []struct {
			name    string
			msgs    []sdk.Msg
			signers []*world.Account
		}{
			{"[AddRecord(A,a,by=W), CreateTopic(W,g15), AddRecord(A,a,by=W)]", []sdk.Msg{
				aoltypes.NewMsgAddRecordRequest("a", []byte("g1"), []byte("v1"), e.W.Bech, e.A.Bech, ""),
				aoltypes.NewMsgCreateTopic("g15", "", e.W.Bech),
				aoltypes.NewMsgAddRecordRequest("a", []byte("g2"), []byte("v2"), e.W.Bech, e.A.Bech, "")}, []*world.Account{e.W}},
			{"[UpdateDID(d1,D5), Mint(d,g,A), AddWriter(A,a,B)]", []sdk.Msg{
				&didtypes.MsgUpdateDIDRequest{Did: e.Did, Document: doc5, VerificationMethodId: k.vmID(e.Did, 1), Signature: k.sign(doc5, 0, 1), FromAddress: e.A.Bech},
				pnfttypes.NewMsgMintPNFTRequest("d", "g", "n", "", "", "", e.A.Bech, ""),
				aoltypes.NewMsgAddWriter("a", "b", "", e.B.Bech, e.A.Bech)}, []*world.Account{e.A}},
			{"[TransferPNFT(d,t,A->B), DeleteWriter(A,a,W)]", []sdk.Msg{
				pnfttypes.NewMsgTransferPNFTRequest("d", "t", e.A.Bech, e.B.Bech),
				aoltypes.NewMsgDeleteWriter("a", e.W.Bech, e.A.Bech)}, []*world.Account{e.A}},
		}
		fee := sdk.NewCoins(sdk.NewInt64Coin("umed", 1000))
		for _, sw := range sweeps {
			discard := w.Fork()
			full := w.Send(world.TxSpec{Msgs: sw.msgs, Signers: sw.signers, Fee: fee, Gas: 5000000})
			fullState := dumpCustom(w)
			discard()
			if full.Code != 0 {
				run.Add(report.Viol{Kind: "unexpected-result", Sig: "unexpected-result:gas-sweep:" + sw.name, Msg: fmt.Sprintf("gas sweep %s: with ample gas the transaction fails: %s", sw.name, firstLineOf(full.Log)), Replay: map[string]any{"case": "gas-sweep|" + sw.name}})
				continue
			}
			need := uint64(full.GasUsed)
			for g := uint64(1); g <= need+2*stride; g += stride { // (a gas limit of 0 means "default" to the driver)
				sweepEvals++
				balBefore, supBefore := allBalances(w)
				discard := w.Fork()
				res := w.Send(world.TxSpec{Msgs: sw.msgs, Signers: sw.signers, Fee: fee, Gas: g})
				after := dumpCustom(w)
				balAfter, supAfter := allBalances(w)
				discard()
				label := fmt.Sprintf("gas-sweep|%s|gas=%d (needs %d)", sw.name, g, need)
				want := base
				if res.Code == 0 {
					want = fullState
					sweepOK++
				} else {
					sweepFailed++
				}
				if diff := sameCustom(want, after); diff != "" {
					kind := "partial-effect"
					if res.Code == 0 {
						kind = "partial-effect-committed"
					}
					run.Add(report.Viol{Kind: kind, Sig: kind + ":gas-sweep:" + sw.name, Msg: fmt.Sprintf("%s: code %d, but the custom state is neither untouched nor the full effect: %s", label, res.Code, diff), Replay: map[string]any{"case": label}})
					break
				}
				if !supBefore.IsEqual(supAfter) {
					run.Add(report.Viol{Kind: "supply-changed", Sig: "supply-changed:gas-sweep:" + sw.name, Msg: fmt.Sprintf("%s: total supply %s -> %s", label, supBefore, supAfter), Replay: map[string]any{"case": label}})
					break
				}
				bad := ""
				for a, b := range balAfter {
					if a == sw.signers[0].Bech || a == feeCollector {
						continue
					}
					if !b.IsEqual(balBefore[a]) {
						bad = a
					}
				}
				if bad != "" {
					run.Add(report.Viol{Kind: "balance-changed", Sig: "balance-changed:gas-sweep:" + sw.name, Msg: fmt.Sprintf("%s: balance of %s changed", label, bad), Replay: map[string]any{"case": label}})
					break
				}
			}
		}
		run.Coverage["gas_sweep"] = map[string]any{"transactions": len(sweeps), "stride": stride, "evaluations": sweepEvals, "succeeded": sweepOK, "failed": sweepFailed,
			"rule": "every gas limit 0, stride, 2*stride, ... up to past the gas the transaction needs: failed => custom state untouched; succeeded => custom state equals the full effect; only payer and fee collector balances move; supply constant"}
	}
	_ = banktypes.ModuleName
	var oc []string
	for k, v := range outcomes {
		oc = append(oc, fmt.Sprintf("%s=%d", k, v))
	}
	sort.Strings(oc)
	run.Coverage["evaluations"] = evals
	run.Coverage["distinct_nontrivial"] = okTx + failedTx
	run.Coverage["rule"] = "in each base state (empty, populated, sponsored = populated + a fee allowance from the topic owner to a fee payer who cannot afford the fee) every transaction of 1..3 messages drawn from {one succeeding, one failing message per custom module} x fee in {0, 1000umed, 1000umed+5uxyz} x arrangement in {single signer A; add-record with named fee payer F first (signers [F,W]); the same with a fee payer sorting on the other side of the writer; messages of A and B alternating; messages of A followed by an add-record naming fee payer F (signers [A,F,W], payer A); the same one-shot message twice in one transaction (must fail as a whole)}, delivered on a fork of the real deliver state; all bank balances and the total supply are compared before/after. non-trivial = transactions that reached DeliverTx with the expected verdict"
	run.Coverage["samples"] = samples
	run.Coverage["exhaustive"] = true
	run.Coverage["succeeded"] = okTx
	run.Coverage["failed"] = failedTx
	run.Coverage["outcomes"] = oc
	run.Assumptions = []string{"explicit AuthInfo.Fee.payer/granter overrides are left out (the statement defines the payer as the first signer)", "zero minimum gas prices (node-local setting)"}
	return run.Finish()
}

// customAnswers renders the custom modules' own read paths (keeper query servers on the working state).
func customAnswers(e *domEnv, w *world.World) string {
	ctx := sdk.WrapSDKContext(w.Ctx())
	var b strings.Builder
	t, err := w.App.AolKeeper.Topic(ctx, &aoltypes.QueryTopicRequest{OwnerAddress: e.A.Bech, TopicName: "a"})
	fmt.Fprintf(&b, "Topic(A,a)=%v %v\n", t, err)
	ts, err := w.App.AolKeeper.Topics(ctx, &aoltypes.QueryTopicsRequest{OwnerAddress: e.A.Bech})
	fmt.Fprintf(&b, "Topics(A)=%v %v\n", ts, err)
	ws, err := w.App.AolKeeper.Writers(ctx, &aoltypes.QueryWritersRequest{OwnerAddress: e.A.Bech, TopicName: "a"})
	fmt.Fprintf(&b, "Writers(A,a)=%v %v\n", ws, err)
	for off := uint64(0); off < 3; off++ {
		r, err := w.App.AolKeeper.Record(ctx, &aoltypes.QueryRecordRequest{OwnerAddress: e.A.Bech, TopicName: "a", Offset: off})
		fmt.Fprintf(&b, "Record(A,a,%d)=%v %v\n", off, r, err)
	}
	d := w.App.DidKeeper.GetDIDDocument(w.Ctx(), e.Did)
	fmt.Fprintf(&b, "DID(d1)=%d %v\n", d.Sequence, d.Document)
	dn, err := w.App.PnftKeeper.Denoms(ctx, &pnfttypes.QueryDenomsRequest{})
	fmt.Fprintf(&b, "Denoms=%v %v\n", dn, err)
	ps, err := w.App.PnftKeeper.PNFTs(ctx, &pnfttypes.QueryPNFTsRequest{DenomId: "d"})
	fmt.Fprintf(&b, "PNFTs(d)=%v %v\n", ps, err)
	return b.String()
}

func firstDiffLine(a, b string) string {
	al, bl := strings.Split(a, "\n"), strings.Split(b, "\n")
	for i := range al {
		if i < len(bl) && al[i] != bl[i] {
			return fmt.Sprintf("before: %s | after: %s", firstN(al[i], 300), firstN(bl[i], 300))
		}
	}
	return "(different lengths)"
}
