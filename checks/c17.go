package checks

import (
	"bytes"
	"crypto/sha256"
	"encoding/base64"
	"encoding/hex"
	"encoding/json"
	"fmt"
	"math"
	"os"
	"path/filepath"
	"sort"
	"strings"

	abci "github.com/cometbft/cometbft/abci/types"
	sdk "github.com/cosmos/cosmos-sdk/types"
	"github.com/cosmos/cosmos-sdk/types/query"
	aoltypes "github.com/medibloc/panacea-core/v2/x/aol/types"
	didcrypto "github.com/medibloc/panacea-core/v2/x/did/client/crypto"
	didtypes "github.com/medibloc/panacea-core/v2/x/did/types"
	pnfttypes "github.com/medibloc/panacea-core/v2/x/pnft/types"
	"golang.org/x/crypto/pbkdf2"
	"golang.org/x/crypto/sha3"

	"verif/engine/explore"
	"verif/engine/report"
	"verif/engine/world"
)

const panicCode = 111222 // sdkerrors.ErrPanic: a recovered runtime panic surfaces with this ABCI code

type c17viol struct {
	kind, sig, msg string
	odd            int
	group          string   // api + type/path
	labels         []string // non-default shapes of the failing input
}

// c17States builds the three base states used for deliveries and queries.
func c17States(e *domEnv) map[string]*world.World {
	out := map[string]*world.World{}
	out["empty"] = world.New(world.Options{Accounts: []*world.Account{e.A, e.B, e.W, e.F}})
	out["populated"] = populated(e)
	w := populated(e)
	s := func(a ...*world.Account) []*world.Account { return a }
	k := e.DidKey
	for _, spec := range []world.TxSpec{
		{Msgs: []sdk.Msg{aoltypes.NewMsgDeleteWriter("a", e.W.Bech, e.A.Bech)}, Signers: s(e.A)},
		{Msgs: []sdk.Msg{&didtypes.MsgDeactivateDIDRequest{Did: e.Did, VerificationMethodId: k.vmID(e.Did, 1), Signature: k.sign(&didtypes.DIDDocument{Id: e.Did}, 0, 1), FromAddress: e.A.Bech}}, Signers: s(e.A)},
		{Msgs: []sdk.Msg{pnfttypes.NewMsgBurnPNFTRequest("d", "t", e.A.Bech)}, Signers: s(e.A)},
		{Msgs: []sdk.Msg{pnfttypes.NewMsgTransferRequest("d", e.A.Bech, e.B.Bech)}, Signers: s(e.A)},
	} {
		if res := w.Send(spec); res.Code != 0 {
			panic("c17States: " + res.Log)
		}
	}
	out["tombstones"] = w
	return out
}

func C17(t Tier) int {
	run := report.NewRun("C17", t.Name, "exploration", "E3+E1")
	e := newDomEnv()
	var vs []c17viol
	add := func(kind, sig string, odd int, format string, a ...any) {
		// sig = kind:api:type-or-path:label,label,...
		parts := strings.SplitN(sig, ":", 4)
		for len(parts) < 4 {
			parts = append(parts, "")
		}
		var labels []string
		if parts[3] != "" {
			labels = strings.Split(parts[3], ",")
		}
		vs = append(vs, c17viol{kind, sig, fmt.Sprintf(format, a...), len(labels), strings.Join(parts[:3], ":"), labels})
	}
	evals, reached := 0, 0
	var samples []any
	byAddr := map[string]*world.Account{}
	for _, a := range []*world.Account{e.A, e.B, e.W, e.F} {
		byAddr[string(a.Addr)] = a
	}

	// ---- (1) messages: ValidateBasic -> GetSigners -> DeliverTx in three base states ----
	states := c17States(e)
	stateNames := sortedKeys(states)
	maxOdd := 2
	if t.Thorough {
		maxOdd = 3
	}
	msgInputs, msgDelivered := 0, 0
	for _, d := range allDomains(e, true) {
		d.product(maxOdd, func(m0 sdk.Msg, labels []string, odd int) {
			m, ok := roundTrip(d, m0)
			if !ok {
				return
			}
			evals++
			msgInputs++
			var err error
			if p := guard(func() { err = m.ValidateBasic() }); p != "" {
				add("panic", fmt.Sprintf("panic:ValidateBasic:%s:%s", d.Name, strings.Join(labels, ",")), odd, "%s.ValidateBasic panicked with %v: %s", d.Name, labels, firstLineOf(p))
				return
			}
			if err != nil {
				return
			}
			var signers []sdk.AccAddress
			if p := guard(func() { signers = m.GetSigners() }); p != "" {
				add("panic", fmt.Sprintf("panic:GetSigners:%s:%s", d.Name, strings.Join(labels, ",")), odd, "%s.GetSigners panicked after successful validation with %v: %s", d.Name, labels, firstLineOf(p))
				return
			}
			if p := guard(func() { _ = m.(interface{ GetSignBytes() []byte }).GetSignBytes() }); p != "" {
				add("panic", fmt.Sprintf("panic:GetSignBytes:%s:%s", d.Name, strings.Join(labels, ",")), odd, "%s.GetSignBytes panicked with %v: %s", d.Name, labels, firstLineOf(p))
			}
			var accs []*world.Account
			for _, s := range signers {
				if a, ok := byAddr[string(s)]; ok {
					accs = append(accs, a)
				}
			}
			if len(accs) != len(signers) {
				accs = []*world.Account{e.A} // cannot sign for an unknown address: the ante handler refuses (still must not panic)
			}
			reached++
			for _, sn := range stateNames {
				w := states[sn]
				discard := w.Fork()
				var res abci.ResponseDeliverTx
				p := guard(func() { res = w.Send(world.TxSpec{Msgs: []sdk.Msg{m}, Signers: accs, Fee: aolFee}) })
				discard()
				msgDelivered++
				if p != "" {
					add("panic", fmt.Sprintf("panic:DeliverTx:%s:%s", d.Name, strings.Join(labels, ",")), odd, "DeliverTx of %s %v in state %s panicked through baseapp: %s", d.Name, labels, sn, firstLineOf(p))
				} else if res.Code == panicCode {
					add("panic", fmt.Sprintf("panic:handler:%s:%s", d.Name, strings.Join(labels, ",")), odd, "handler of %s %v in state %s panicked (recovered by baseapp): %s", d.Name, labels, sn, firstLineOf(res.Log))
				}
			}
			if len(samples) < 3 && odd == 2 {
				samples = append(samples, map[string]any{"message": d.Name, "non_default_fields": labels})
			}
		})
	}

	// ---- (2) queries ----
	qInputs := c17Queries(e, t, add, &samples)
	evals += qInputs

	// ---- (3) key-store files ----
	ksInputs, ksReached := c17KeyStore(t, add, &samples)
	evals += ksInputs
	reached += ksReached

	// ---- (4) end-of-block processing after whatever state crafted transactions left behind ----
	ebSeqs := c17EndBlock(t, add, &samples)
	evals += ebSeqs
	reached += ebSeqs

	// report only minimal failing shape sets: a failing input is dropped when a failing input of the same
	// API/type with a strict subset of its non-default shapes exists (that one is the root cause)
	sort.SliceStable(vs, func(i, j int) bool { return vs[i].odd < vs[j].odd })
	kept := map[string][][]string{}
	subset := func(a, b []string) bool {
		for _, x := range a {
			found := false
			for _, y := range b {
				if x == y {
					found = true
				}
			}
			if !found {
				return false
			}
		}
		return true
	}
	for _, v := range vs {
		dominated := false
		for _, k := range kept[v.group] {
			if subset(k, v.labels) {
				dominated = true
				break
			}
		}
		if dominated {
			continue
		}
		kept[v.group] = append(kept[v.group], v.labels)
		run.Add(report.Viol{Kind: v.kind, Sig: v.sig, Msg: v.msg, Replay: map[string]any{"check": "C17", "case": v.sig}})
	}
	run.Coverage["evaluations"] = evals
	run.Coverage["distinct_nontrivial"] = reached
	run.Coverage["rule"] = fmt.Sprintf("(1) every custom message type x every combination of at most %d non-default field shapes (absent sub-message, empty, 255/256/5001/65536-byte strings, malformed/upper-case/oversize addresses, NUL, invalid UTF-8): serialise+decode, ValidateBasic, GetSigners, GetSignBytes under recover, then DeliverTx in three base states (ABCI code 111222 = recovered panic); (2) every custom query type x request-shape product through BaseApp.Query and directly on the keeper under recover, in four states incl. an odd-length-owner genesis; (3) key-store files: product over version/cipher/kdf/prf/mac/iv/ciphertext/salt/c/dklen x password with the MAC made valid wherever the shape allows, loaded with the real package; (4) every sequence of at most 2 (thorough: 3) state-crafting transactions of C07's deposit alphabet (sends in several denominations incl. 2^120 and a send-disabled one, multi-send, four kinds of vesting account at the burn address, a transfer to the burn module account, community-pool funding, proposal, vote, custom-module traffic) delivered on a fork of the real deliver state, followed by the real EndBlock under recover. non-trivial = inputs that passed stateless validation and reached the handlers + key files that reached decryption", maxOdd)
	run.Coverage["samples"] = samples
	run.Coverage["exhaustive"] = true
	run.Coverage["message_inputs"] = msgInputs
	run.Coverage["message_deliveries"] = msgDelivered
	run.Coverage["query_inputs"] = qInputs
	run.Coverage["endblock_sequences"] = ebSeqs
	run.Coverage["keystore_inputs"] = ksInputs
	run.Coverage["keystore_reached_decryption"] = ksReached
	run.Assumptions = []string{"EndBlock totality is exercised in every state of the C07 graph", "query requests are built as Go values and marshalled; unknown-field / wire-level garbage is the codec's business"}
	return run.Finish()
}

// ---------------------------------------------------------------------------------------------

// qlabel renders a query case as "Name:comp=class,comp=class" keeping only the non-default classes.
func qlabel(name string, comps ...string) string {
	var odd []string
	for i := 0; i+1 < len(comps); i += 2 {
		if c := comps[i+1]; c != "valid" && c != "nil" && c != "0" && c != "existing" && c != "d" && c != "t" {
			odd = append(odd, comps[i]+"="+c)
		}
	}
	return name + ":" + strings.Join(odd, ",")
}

type qcase struct {
	path string
	req  interface {
		Marshal() ([]byte, error)
	}
	label  string
	direct func(w *world.World) error
}

func pageShapes() []struct {
	l string
	p *query.PageRequest
} {
	return []struct {
		l string
		p *query.PageRequest
	}{
		{"nil", nil}, {"zero", &query.PageRequest{}}, {"limit1", &query.PageRequest{Limit: 1}}, {"limitmax", &query.PageRequest{Limit: math.MaxUint64}},
		{"offsetmax", &query.PageRequest{Offset: math.MaxUint64, Limit: 1}}, {"offset1", &query.PageRequest{Offset: 1, Limit: 2, CountTotal: true}},
		{"key-garbage", &query.PageRequest{Key: []byte{0xff, 0x00, 0x01}, Limit: 2}}, {"key-empty", &query.PageRequest{Key: []byte{}, Limit: 2}},
		{"key-and-offset", &query.PageRequest{Key: []byte{0x01}, Offset: 1}}, {"reverse", &query.PageRequest{Reverse: true, Limit: 1, CountTotal: true}},
		{"reverse-key-garbage", &query.PageRequest{Reverse: true, Key: bytes.Repeat([]byte{0xff}, 300)}}, {"key-short", &query.PageRequest{Key: []byte{0x01}}},
		{"key-len-prefix-only", &query.PageRequest{Key: []byte{0x14}}},
	}
}

func c17Queries(e *domEnv, t Tier, add func(kind, sig string, odd int, format string, a ...any), samples *[]any) int {
	owners := addrClasses(e, e.A, true)
	writers := addrClasses(e, e.W, true)
	topics := append(topicClasses(true), [2]string{"len5001", rep("t", 5001)})
	var cases []qcase
	k := func(w *world.World) sdk.Context { return w.Ctx() }
	for _, o := range owners {
		for _, tp := range topics {
			o, tp := o, tp
			req := &aoltypes.QueryTopicRequest{OwnerAddress: o[1], TopicName: tp[1]}
			cases = append(cases, qcase{"/panacea.aol.v2.Query/Topic", req, qlabel("Topic", "owner", o[0], "topic", tp[0]), func(w *world.World) error {
				_, err := w.App.AolKeeper.Topic(sdk.WrapSDKContext(k(w)), req)
				return err
			}})
			for _, off := range []uint64{0, 1, math.MaxUint64} {
				req := &aoltypes.QueryRecordRequest{OwnerAddress: o[1], TopicName: tp[1], Offset: off}
				cases = append(cases, qcase{"/panacea.aol.v2.Query/Record", req, qlabel("Record", "owner", o[0], "topic", tp[0], "offset", fmt.Sprint(off)), func(w *world.World) error {
					_, err := w.App.AolKeeper.Record(sdk.WrapSDKContext(k(w)), req)
					return err
				}})
			}
			for _, wr := range writers {
				if (o[0] != "valid" && wr[0] != "valid") && !t.Thorough {
					continue
				}
				req := &aoltypes.QueryWriterRequest{OwnerAddress: o[1], TopicName: tp[1], WriterAddress: wr[1]}
				cases = append(cases, qcase{"/panacea.aol.v2.Query/Writer", req, qlabel("Writer", "owner", o[0], "topic", tp[0], "writer", wr[0]), func(w *world.World) error {
					_, err := w.App.AolKeeper.Writer(sdk.WrapSDKContext(k(w)), req)
					return err
				}})
			}
			for _, pg := range pageShapes() {
				req := &aoltypes.QueryWritersRequest{OwnerAddress: o[1], TopicName: tp[1], Pagination: pg.p}
				cases = append(cases, qcase{"/panacea.aol.v2.Query/Writers", req, qlabel("Writers", "owner", o[0], "topic", tp[0], "page", pg.l), func(w *world.World) error {
					_, err := w.App.AolKeeper.Writers(sdk.WrapSDKContext(k(w)), req)
					return err
				}})
			}
		}
		for _, pg := range pageShapes() {
			o := o
			req := &aoltypes.QueryTopicsRequest{OwnerAddress: o[1], Pagination: pg.p}
			cases = append(cases, qcase{"/panacea.aol.v2.Query/Topics", req, qlabel("Topics", "owner", o[0], "page", pg.l), func(w *world.World) error {
				_, err := w.App.AolKeeper.Topics(sdk.WrapSDKContext(k(w)), req)
				return err
			}})
		}
	}
	// DID
	b64 := func(s string) string { return base64.StdEncoding.EncodeToString([]byte(s)) }
	for _, c := range [][2]string{{"existing", b64(e.Did)}, {"other", b64(e.DidKey.DIDs[1])}, {"not-base64", "%%%"}, {"empty", ""}, {"300bytes", b64(rep("x", 300))}, {"nul", b64("\x00")}, {"urlsafe", "-_-_"}, {"padding-missing", "ZGlk"[:3]}} {
		req := &didtypes.QueryDIDRequest{DidBase64: c[1]}
		cases = append(cases, qcase{"/panacea.did.v2.Query/DID", req, qlabel("DID", "did", c[0]), func(w *world.World) error {
			_, err := w.App.DidKeeper.DID(sdk.WrapSDKContext(k(w)), req)
			return err
		}})
	}
	// PNFT
	ids := [][2]string{{"d", "d"}, {"t", "t"}, {"empty", ""}, {"nul", "d\x00x"}, {"len300", rep("i", 300)}, {"missing", "zz"}, {"badutf8", "a\xff"}}
	for _, pg := range pageShapes() {
		req := &pnfttypes.QueryDenomsRequest{Pagination: pg.p}
		cases = append(cases, qcase{"/panacea.pnft.v2.Query/Denoms", req, qlabel("Denoms", "page", pg.l), func(w *world.World) error {
			_, err := w.App.PnftKeeper.Denoms(sdk.WrapSDKContext(k(w)), req)
			return err
		}})
	}
	for _, o := range owners {
		req := &pnfttypes.QueryDenomsByOwnerRequest{Owner: o[1]}
		cases = append(cases, qcase{"/panacea.pnft.v2.Query/DenomsByOwner", req, qlabel("DenomsByOwner", "owner", o[0]), func(w *world.World) error {
			_, err := w.App.PnftKeeper.DenomsByOwner(sdk.WrapSDKContext(k(w)), req)
			return err
		}})
	}
	for _, d := range ids {
		req := &pnfttypes.QueryDenomRequest{Id: d[1]}
		cases = append(cases, qcase{"/panacea.pnft.v2.Query/Denom", req, qlabel("Denom", "id", d[0]), func(w *world.World) error {
			_, err := w.App.PnftKeeper.Denom(sdk.WrapSDKContext(k(w)), req)
			return err
		}})
		req2 := &pnfttypes.QueryPNFTsRequest{DenomId: d[1]}
		cases = append(cases, qcase{"/panacea.pnft.v2.Query/PNFTs", req2, qlabel("PNFTs", "denom", d[0]), func(w *world.World) error {
			_, err := w.App.PnftKeeper.PNFTs(sdk.WrapSDKContext(k(w)), req2)
			return err
		}})
		for _, o := range owners {
			req := &pnfttypes.QueryPNFTsByDenomOwnerRequest{DenomId: d[1], Owner: o[1]}
			cases = append(cases, qcase{"/panacea.pnft.v2.Query/PNFTsByDenomOwner", req, qlabel("PNFTsByDenomOwner", "denom", d[0], "owner", o[0]), func(w *world.World) error {
				_, err := w.App.PnftKeeper.PNFTsByDenomOwner(sdk.WrapSDKContext(k(w)), req)
				return err
			}})
		}
		for _, id := range ids {
			req := &pnfttypes.QueryPNFTRequest{DenomId: d[1], Id: id[1]}
			cases = append(cases, qcase{"/panacea.pnft.v2.Query/PNFT", req, qlabel("PNFT", "denom", d[0], "id", id[0]), func(w *world.World) error {
				_, err := w.App.PnftKeeper.PNFT(sdk.WrapSDKContext(k(w)), req)
				return err
			}})
		}
	}
	// states: the three base states plus the odd-length-owner genesis of C13; all committed so that BaseApp.Query sees them
	states := c17States(e)
	inj := &aolInject{Owners: [][]byte{{0x41}, bytes.Repeat([]byte{0x43}, 255)}, Topics: []string{"a", strings.Repeat("z", 70)}}
	states["odd-owners"] = world.New(world.Options{Accounts: []*world.Account{e.A, e.W}, Mutate: inj.mutate})
	n := 0
	for _, sn := range sortedKeys(states) {
		w := states[sn]
		w.NextBlock()
		for _, c := range cases {
			n++
			bz, err := c.req.Marshal()
			if err == nil {
				var res abci.ResponseQuery
				if p := guard(func() { res = w.App.Query(abci.RequestQuery{Path: c.path, Data: bz}) }); p != "" {
					add("panic", "panic:Query:"+c.label, 0, "BaseApp.Query %s in state %s panicked: %s", c.label, sn, firstLineOf(p))
				} else if res.Code == panicCode {
					add("panic", "panic:Query:"+c.label, 0, "query %s in state %s panicked (recovered by baseapp): %s", c.label, sn, firstLineOf(res.Log))
				}
			}
			if p := guard(func() { _ = c.direct(w) }); p != "" {
				add("panic", "panic:QueryServer:"+c.label, 0, "query server %s in state %s panicked: %s", c.label, sn, firstLineOf(p))
			}
		}
	}
	*samples = append(*samples, map[string]any{"query": cases[len(cases)/3].label}, map[string]any{"query": cases[2*len(cases)/3].label})
	return n
}

// ---------------------------------------------------------------------------------------------

type ksFile struct {
	Version int    `json:"version"`
	ID      string `json:"id"`
	Address string `json:"address"`
	Crypto  struct {
		Cipher       string `json:"cipher"`
		CipherText   string `json:"ciphertext"`
		CipherParams struct {
			IV string `json:"iv"`
		} `json:"cipherparams"`
		KDF       string `json:"kdf"`
		KDFParams struct {
			C     int    `json:"c"`
			DKLen int    `json:"dklen"`
			PRF   string `json:"prf"`
			Salt  string `json:"salt"`
		} `json:"kdfparams"`
		MAC string `json:"mac"`
	} `json:"crypto"`
}

func c17KeyStore(t Tier, add func(kind, sig string, odd int, format string, a ...any), samples *[]any) (int, int) {
	dir, err := os.MkdirTemp(world.ScratchDir, "ks-")
	if err != nil {
		panic(err)
	}
	defer os.RemoveAll(dir)
	ks, err := didcrypto.NewKeyStore(dir)
	if err != nil {
		panic(err)
	}
	type opt struct {
		l string
		v any
	}
	versions := []opt{{"3", 3}, {"2", 2}}
	ciphers := []opt{{"aes-128-ctr", "aes-128-ctr"}, {"other", "aes-256-gcm"}}
	kdfs := []opt{{"pbkdf2", "pbkdf2"}, {"scrypt", "scrypt"}}
	prfs := []opt{{"hmac-sha256", "hmac-sha256"}, {"other", "hmac-sha512"}}
	macs := []opt{{"valid", "valid"}, {"wrong", strings.Repeat("00", 32)}, {"nothex", "zz"}, {"empty", ""}}
	h3c := func(n int) string { return strings.Repeat("3c", n) }
	// strings of the right LENGTH that are not hex (first / last character), of odd length, in upper case
	ivs := []opt{{"16", 16}, {"0", 0}, {"15", 15}, {"17", 17}, {"nothex", -1},
		{"32chars-first-nothex", "z" + h3c(16)[1:]}, {"32chars-last-nothex", h3c(16)[:31] + "g"}, {"31chars", h3c(16)[:31]}, {"33chars", h3c(16) + "3"}, {"uppercase", strings.ToUpper(h3c(16))}, {"0x-prefixed-32chars", "0x" + h3c(15)}}
	cts := []opt{{"32", 32}, {"0", 0}, {"1", 1}, {"nothex", -1}, {"64chars-last-nothex", h3c(32)[:63] + "g"}, {"63chars", h3c(32)[:63]}}
	salts := []opt{{"32", 32}, {"0", 0}, {"nothex", -1}, {"64chars-first-nothex", "z" + h3c(32)[1:]}, {"63chars", h3c(32)[:63]}}
	cs := []opt{{"1", 1}, {"0", 0}, {"-1", -1}, {"2", 2}}
	dklens := []opt{{"32", 32}, {"-1", -1}, {"0", 0}, {"16", 16}, {"31", 31}, {"33", 33}, {"4096", 4096}}
	if t.Thorough {
		dklens = append(dklens, opt{"1048576", 1 << 20}, opt{"minint", math.MinInt32})
	}
	pws := []opt{{"right", "pw"}, {"wrong", "other"}, {"empty", ""}}
	dims := [][]opt{versions, ciphers, kdfs, prfs, macs, ivs, cts, salts, cs, dklens}
	names := []string{"version", "cipher", "kdf", "prf", "mac", "iv", "ciphertext", "salt", "c", "dklen"}
	maxOdd := 4
	if t.Thorough {
		maxOdd = 6
	}
	hexOf := func(v any) string {
		if str, ok := v.(string); ok {
			return str
		}
		n := v.(int)
		if n < 0 {
			return "xyz"
		}
		return hex.EncodeToString(bytes.Repeat([]byte{0x3c}, n))
	}
	idx := make([]int, len(dims))
	n, reached := 0, 0
	var rec func(i, odd int)
	rec = func(i, odd int) {
		if i < len(dims) {
			for ci := range dims[i] {
				o := odd
				if ci > 0 {
					o++
				}
				if o > maxOdd {
					continue
				}
				idx[i] = ci
				rec(i+1, o)
			}
			return
		}
		var f ksFile
		f.Version = dims[0][idx[0]].v.(int)
		f.ID = "id"
		f.Address = "addr"
		f.Crypto.Cipher = dims[1][idx[1]].v.(string)
		f.Crypto.KDF = dims[2][idx[2]].v.(string)
		f.Crypto.KDFParams.PRF = dims[3][idx[3]].v.(string)
		f.Crypto.CipherParams.IV = hexOf(dims[5][idx[5]].v)
		f.Crypto.CipherText = hexOf(dims[6][idx[6]].v)
		f.Crypto.KDFParams.Salt = hexOf(dims[7][idx[7]].v)
		f.Crypto.KDFParams.C = dims[8][idx[8]].v.(int)
		f.Crypto.KDFParams.DKLen = dims[9][idx[9]].v.(int)
		var labels []string
		for j := range dims {
			if idx[j] > 0 {
				labels = append(labels, names[j]+"="+dims[j][idx[j]].l)
			}
		}
		macValid := false
		f.Crypto.MAC = dims[4][idx[4]].v.(string)
		if f.Crypto.MAC == "valid" {
			// make the MAC valid for password "pw" wherever the shape allows, so that decryption is reached
			f.Crypto.MAC = strings.Repeat("11", 32)
			salt, e1 := hex.DecodeString(f.Crypto.KDFParams.Salt)
			ct, e2 := hex.DecodeString(f.Crypto.CipherText)
			dk := f.Crypto.KDFParams.DKLen
			if e1 == nil && e2 == nil && dk >= 32 {
				key := pbkdf2.Key([]byte("pw"), salt, f.Crypto.KDFParams.C, dk, sha256.New)
				h := sha3.NewLegacyKeccak256()
				h.Write(key[16:32])
				h.Write(ct)
				f.Crypto.MAC = hex.EncodeToString(h.Sum(nil))
				macValid = true
			}
		}
		bz, _ := json.Marshal(f)
		path := filepath.Join(dir, "k.json")
		if err := os.WriteFile(path, bz, 0o600); err != nil {
			panic(err)
		}
		for _, pw := range pws {
			n++
			var lerr error
			p := guard(func() { _, lerr = ks.Load(path, pw.v.(string)) })
			if p != "" {
				add("panic", "panic:KeyStore.Load:file:"+strings.Join(labels, ","), odd, "KeyStore.Load of a key file with %v and password %q panicked: %s", labels, pw.l, firstLineOf(p))
			}
			if macValid && pw.l == "right" && f.Version == 3 && f.Crypto.Cipher == "aes-128-ctr" && f.Crypto.KDF == "pbkdf2" && f.Crypto.KDFParams.PRF == "hmac-sha256" {
				reached++
				_ = lerr
			}
		}
	}
	rec(0, 0)
	// structurally broken files
	for i, raw := range []string{"", "{", "null", "[]", `{"version":"3"}`, `{"version":3}`, `{"version":3,"crypto":null}`, `{"version":3,"crypto":{"kdfparams":{"dklen":1e40}}}`, `{"version":3,"crypto":{"kdfparams":{"dklen":-9223372036854775808}}}`, "\x00\x01\x02"} {
		path := filepath.Join(dir, "k.json")
		_ = os.WriteFile(path, []byte(raw), 0o600)
		n++
		if p := guard(func() { _, _ = ks.Load(path, "pw") }); p != "" {
			add("panic", fmt.Sprintf("panic:KeyStore.Load:raw:content%d", i), 0, "KeyStore.Load of file content %q panicked: %s", raw, firstLineOf(p))
		}
	}
	for _, addr := range []string{"addr", "", "[", "*", "../x", strings.Repeat("a", 300), "a\x00b"} {
		n++
		if p := guard(func() { _, _ = ks.LoadByAddress(addr, "pw") }); p != "" {
			add("panic", "panic:KeyStore.LoadByAddress:address:"+q(addr), 0, "KeyStore.LoadByAddress(%q) panicked: %s", addr, firstLineOf(p))
		}
	}
	n++
	if p := guard(func() { _, _ = ks.Load(filepath.Join(dir, "missing.json"), "pw") }); p != "" {
		add("panic", "panic:KeyStore.Load:missing:", 0, "KeyStore.Load of a missing file panicked: %s", firstLineOf(p))
	}
	*samples = append(*samples, map[string]any{"keystore_file": "version=3 cipher=aes-128-ctr kdf=pbkdf2 dklen=33 iv=17 bytes, MAC valid for password"})
	return n, reached
}

// c17EndBlock: end-of-block totality. Every sequence of state-crafting transactions (C07's deposit alphabet) up to the
// length bound is delivered on a fork of the deliver state and the real EndBlock runs under recover.
func c17EndBlock(t Tier, add func(kind, sig string, odd int, format string, a ...any), samples *[]any) int {
	sys := c07System()
	w, _ := sys.Fresh()
	var ops []explore.Op
	for _, o := range sys.Ops {
		if o.Ctl == "" {
			ops = append(ops, o)
		}
	}
	maxLen := 2
	if t.Thorough {
		maxLen = 3
	}
	n := 0
	var rec func(seq []int)
	rec = func(seq []int) {
		if len(seq) > 0 {
			n++
			var names []string
			discard := w.Fork()
			delivered := ""
			for _, i := range seq {
				names = append(names, strings.ReplaceAll(ops[i].Name, ",", ";"))
				spec := ops[i].Tx(w, nil)
				if spec == nil {
					continue
				}
				if p := guard(func() { w.Send(*spec) }); p != "" && delivered == "" {
					delivered = p
				}
			}
			p := guard(func() { w.EndBlock() })
			discard()
			if p != "" {
				add("panic", "panic:EndBlock:after:"+strings.Join(names, ","), len(seq), "EndBlock panicked after the transactions %v: %s", names, firstLineOf(p))
			}
			if len(*samples) < 12 && n%97 == 0 {
				*samples = append(*samples, map[string]any{"end_of_block_after": names, "panicked": p != ""})
			}
		}
		if len(seq) == maxLen {
			return
		}
		for i := range ops {
			rec(append(append([]int{}, seq...), i))
		}
	}
	rec(nil)
	return n
}
