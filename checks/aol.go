package checks

import (
	"bytes"
	"crypto/sha256"
	"encoding/binary"
	"encoding/json"
	"fmt"
	"sort"
	"strings"
	"time"

	"github.com/cosmos/cosmos-sdk/codec"

	sdk "github.com/cosmos/cosmos-sdk/types"
	"github.com/cosmos/cosmos-sdk/types/query"
	"github.com/cosmos/cosmos-sdk/x/authz"
	aoltypes "github.com/medibloc/panacea-core/v2/x/aol/types"
	didtypes "github.com/medibloc/panacea-core/v2/x/did/types"
	pnfttypes "github.com/medibloc/panacea-core/v2/x/pnft/types"

	"verif/engine/explore"
	"verif/engine/report"
	"verif/engine/world"
)

// ---------------------------------------------------------------------------------------------
// Reference model (boring on purpose)
// ---------------------------------------------------------------------------------------------

type aolWriter struct {
	Moniker, Desc string
	TS            int64
}

type aolRecord struct {
	Key, Value []byte
	Writer     string // bech32
	TS         int64
}

type aolTopic struct {
	Owner   string // raw address bytes as string
	Name    string
	Desc    string
	Writers map[string]aolWriter // raw writer address bytes -> writer
	Records []aolRecord
}

type aolModel struct {
	Topics map[string]*aolTopic // key: owner-bytes + "\x00|" + name (owner lengths are explicit in tkey)
	Grants map[string]bool      // granter|grantee|msgTypeURL
	// Unmodelled is set when a check that does not own the acceptance oracle sees the implementation take a
	// decision the model cannot follow; the subtree is abandoned (counted).
	Unmodelled bool
}

func tkey(owner []byte, name string) string {
	return fmt.Sprintf("%d:%s:%s", len(owner), string(owner), name)
}

func newAolModel() *aolModel {
	return &aolModel{Topics: map[string]*aolTopic{}, Grants: map[string]bool{}}
}

func (m *aolModel) clone() *aolModel {
	n := newAolModel()
	for k, t := range m.Topics {
		nt := &aolTopic{Owner: t.Owner, Name: t.Name, Desc: t.Desc, Writers: map[string]aolWriter{}, Records: append([]aolRecord{}, t.Records...)}
		for wk, wv := range t.Writers {
			nt.Writers[wk] = wv
		}
		n.Topics[k] = nt
	}
	for k, v := range m.Grants {
		n.Grants[k] = v
	}
	return n
}

func (m *aolModel) hash() []byte {
	h := sha256.New()
	for _, k := range sortedKeys(m.Topics) {
		t := m.Topics[k]
		fmt.Fprintf(h, "T%q/%q/%q;", t.Owner, t.Name, t.Desc)
		for _, wk := range sortedKeys(t.Writers) {
			fmt.Fprintf(h, "W%q=%+v;", wk, t.Writers[wk])
		}
		for i, r := range t.Records {
			fmt.Fprintf(h, "R%d=%q/%q/%s/%d;", i, r.Key, r.Value, r.Writer, r.TS)
		}
	}
	for _, k := range sortedKeys(m.Grants) {
		fmt.Fprintf(h, "G%q;", k)
	}
	fmt.Fprintf(h, "U%v", m.Unmodelled)
	return h.Sum(nil)
}

func (m *aolModel) topicsOf(owner []byte) []string {
	var out []string
	for _, t := range m.Topics {
		if t.Owner == string(owner) {
			out = append(out, t.Name)
		}
	}
	// store order: keys are length-prefixed components, so shorter names come first, equal lengths in byte order
	sort.Slice(out, func(i, j int) bool {
		if len(out[i]) != len(out[j]) {
			return len(out[i]) < len(out[j])
		}
		return out[i] < out[j]
	})
	return out
}

func (m *aolModel) owners() []string {
	set := map[string]bool{}
	for _, t := range m.Topics {
		set[t.Owner] = true
	}
	var out []string
	for o := range set {
		out = append(out, o)
	}
	sort.Strings(out)
	return out
}

// ---------------------------------------------------------------------------------------------
// Alphabet
// ---------------------------------------------------------------------------------------------

type aolAccounts struct{ A, B, W, X, F *world.Account }

func aolAccs() aolAccounts {
	return aolAccounts{world.NewAccount("A"), world.NewAccount("B"), world.NewAccount("W"), world.NewAccount("X"), world.NewAccount("F")}
}

func (a aolAccounts) all() []*world.Account { return []*world.Account{a.A, a.B, a.W, a.X, a.F} }

var aolFee = sdk.NewCoins(sdk.NewInt64Coin("umed", 1000))

func txOp(name string, signers []*world.Account, msgs ...sdk.Msg) explore.Op {
	return explore.Op{Name: name, Tx: func(w *world.World, m any) *world.TxSpec {
		return &world.TxSpec{Msgs: msgs, Signers: signers, Fee: aolFee}
	}}
}

func ctlOps(names ...string) []explore.Op {
	var out []explore.Op
	for _, n := range names {
		out = append(out, explore.Op{Name: n, Ctl: n})
	}
	return out
}

type aolVariant struct {
	ID       string
	Forged   bool // C02 alphabet extension
	OwnACL   bool // accept <=> model is asserted (otherwise the model follows the implementation)
	OwnRec   bool // record immutability / dense offsets asserted
	OwnCount bool // counters + pagination matrix asserted
	Ctl      []string
	Genesis  func(gs map[string][]byte) // unused hook
	Inject   *aolInject                 // C13: genesis-injected odd owners
	Case     bool                       // reduced alphabet over two topics of one owner whose names differ only in letter case
	Names    []string                   // reduced alphabet over these topic names of owner A
}

func aolOps(acc aolAccounts, v aolVariant) []explore.Op {
	A, B, W, X, F := acc.A, acc.B, acc.W, acc.X, acc.F
	s := func(a ...*world.Account) []*world.Account { return a }
	var ops []explore.Op
	if v.Case && len(v.Names) == 0 {
		v.Names = []string{"a", "A"} // topic names are case-sensitive byte strings: two topics with separate writers, counters, records
	}
	if len(v.Names) > 0 {
		// reduced alphabet over the given topic names of owner A: listed writer W, never-listed X
		for _, t := range v.Names {
			lbl := t
			if len(t) > 8 {
				lbl = fmt.Sprintf("%s..len%d", t[:2], len(t))
			}
			ops = append(ops,
				txOp(fmt.Sprintf("CreateTopic(A,%s)", lbl), s(A), aoltypes.NewMsgCreateTopic(t, "desc-"+lbl, A.Bech)),
				txOp(fmt.Sprintf("AddWriter(A,%s,W)", lbl), s(A), aoltypes.NewMsgAddWriter(t, "mon."+lbl[:1], "", W.Bech, A.Bech)),
				txOp(fmt.Sprintf("AddRecord(A,%s,by=W)", lbl), s(W), aoltypes.NewMsgAddRecordRequest(t, []byte("k-"+lbl), []byte("v-"+lbl), W.Bech, A.Bech, "")),
				txOp(fmt.Sprintf("AddRecord(A,%s,by=X)", lbl), s(X), aoltypes.NewMsgAddRecordRequest(t, []byte("kx-"+lbl), []byte("vx-"+lbl), X.Bech, A.Bech, "")),
			)
		}
		last := v.Names[len(v.Names)-1]
		ops = append(ops, txOp("DeleteWriter(A,<last>,W)", s(A), aoltypes.NewMsgDeleteWriter(last, W.Bech, A.Bech)))
		return append(ops, ctlOps(v.Ctl...)...)
	}
	type ot struct {
		o *world.Account
		t string
	}
	pairs := []ot{{A, "a"}, {A, "ab"}, {B, "a"}}
	for _, o := range []*world.Account{A, B} {
		for _, t := range []string{"a", "ab"} {
			desc := "desc-" + o.Name + t
			if t == "ab" || o == B {
				desc = "" // a topic without description, writers and records is stored as a zero-length value
			}
			ops = append(ops, txOp(fmt.Sprintf("CreateTopic(%s,%s)", o.Name, t), s(o), aoltypes.NewMsgCreateTopic(t, desc, o.Bech)))
		}
	}
	for _, p := range pairs {
		for _, wr := range []*world.Account{W, A} {
			ops = append(ops, txOp(fmt.Sprintf("AddWriter(%s,%s,%s)", p.o.Name, p.t, wr.Name), s(p.o),
				aoltypes.NewMsgAddWriter(p.t, "mon."+wr.Name, "", wr.Bech, p.o.Bech)))
		}
	}
	ops = append(ops, txOp("AddWriter(A,a,W,moniker=revised)", s(A), aoltypes.NewMsgAddWriter("a", "revised", "changed description", W.Bech, A.Bech)))
	// the topic again, with another description: a topic is created once; whatever the answer, its counters stay what they are
	ops = append(ops, txOp("CreateTopic(A,a,description=revised)", s(A), aoltypes.NewMsgCreateTopic("a", "a revised description", A.Bech)))
	for _, p := range pairs {
		ops = append(ops, txOp(fmt.Sprintf("DeleteWriter(%s,%s,W)", p.o.Name, p.t), s(p.o), aoltypes.NewMsgDeleteWriter(p.t, W.Bech, p.o.Bech)))
	}
	ops = append(ops, txOp("DeleteWriter(A,a,A)", s(A), aoltypes.NewMsgDeleteWriter("a", A.Bech, A.Bech))) // the owner removes itself from its own writer list
	for _, p := range pairs {
		ops = append(ops, txOp(fmt.Sprintf("AddRecord(%s,%s,by=W)", p.o.Name, p.t), s(W),
			aoltypes.NewMsgAddRecordRequest(p.t, []byte("k"), []byte("v-"+p.o.Name+p.t), W.Bech, p.o.Bech, "")))
	}
	ops = append(ops,
		txOp("AddRecord(A,a,by=W,empty)", s(W), aoltypes.NewMsgAddRecordRequest("a", nil, nil, W.Bech, A.Bech, "")),
		txOp("AddRecord(A,a,by=W,feepayer=F)", s(F, W), aoltypes.NewMsgAddRecordRequest("a", []byte("kf"), []byte("vf"), W.Bech, A.Bech, F.Bech)),
		txOp("AddRecord(A,a,by=X)", s(X), aoltypes.NewMsgAddRecordRequest("a", []byte("kx"), []byte("vx"), X.Bech, A.Bech, "")),
		txOp("AddRecord(A,a,by=A)", s(A), aoltypes.NewMsgAddRecordRequest("a", []byte("ka"), []byte("va"), A.Bech, A.Bech, "")),
		// an unlisted writer whose fee is paid by a listed one: both sign, only the named writer's listing counts
		txOp("AddRecord(A,a,by=X,feepayer=W)", s(W, X), aoltypes.NewMsgAddRecordRequest("a", []byte("kx"), []byte("vxw"), X.Bech, A.Bech, W.Bech)),
	)
	// rollback routes: a transaction whose later message fails (all of it is reverted), and transactions that are only
	// simulated / checked on the node - none of them may leave any trace
	failW := aoltypes.NewMsgAddRecordRequest("nosuchtopic", []byte("k"), []byte("v"), W.Bech, A.Bech, "")
	failA := aoltypes.NewMsgAddWriter("nosuchtopic", "", "", X.Bech, A.Bech)
	rb := func(o explore.Op) explore.Op { o.Rollback = true; return o }
	ops = append(ops,
		rb(txOp("Tx[AddWriter(A,a,X),failing]", s(A), aoltypes.NewMsgAddWriter("a", "x", "", X.Bech, A.Bech), failA)),
		rb(txOp("Tx[AddRecord(A,a,by=W),failing]", s(W), aoltypes.NewMsgAddRecordRequest("a", []byte("kr"), []byte("vr"), W.Bech, A.Bech, ""), failW)),
		rb(txOp("Tx[DeleteWriter(A,a,W),failing]", s(A), aoltypes.NewMsgDeleteWriter("a", W.Bech, A.Bech), failA)),
	)
	aux := func(kind, name string, signers []*world.Account, msgs ...sdk.Msg) explore.Op {
		o := txOp(name, signers, msgs...)
		o.Aux = kind
		o.Rollback = true
		return o
	}
	ops = append(ops,
		aux("simulate", "Simulate(AddWriter(A,a,X))", s(A), aoltypes.NewMsgAddWriter("a", "x", "", X.Bech, A.Bech)),
		aux("simulate", "Simulate(AddRecord(A,a,by=W))", s(W), aoltypes.NewMsgAddRecordRequest("a", []byte("ks"), []byte("vs"), W.Bech, A.Bech, "")),
		aux("checktx", "CheckTx(CreateTopic(A,a))", s(A), aoltypes.NewMsgCreateTopic("a", "chk", A.Bech)),
	)
	if v.Forged {
		addWriterURL := sdk.MsgTypeURL(&aoltypes.MsgAddWriterRequest{})
		delWriterURL := sdk.MsgTypeURL(&aoltypes.MsgDeleteWriterRequest{})
		grant := func(granter, grantee *world.Account, url string) sdk.Msg {
			g, err := authz.NewMsgGrant(granter.Addr, grantee.Addr, authz.NewGenericAuthorization(url), nil)
			if err != nil {
				panic(err)
			}
			return g
		}
		exec := func(grantee *world.Account, msgs ...sdk.Msg) sdk.Msg {
			e := authz.NewMsgExec(grantee.Addr, msgs)
			return &e
		}
		revoke := func(granter, grantee *world.Account, url string) sdk.Msg {
			r := authz.NewMsgRevoke(granter.Addr, grantee.Addr, url)
			return &r
		}
		ops = append(ops,
			txOp("forged:CreateTopic(A,a)/signedBy=X", s(X), aoltypes.NewMsgCreateTopic("a", "evil", A.Bech)),
			txOp("forged:AddWriter(A,a,X)/signedBy=X", s(X), aoltypes.NewMsgAddWriter("a", "x", "", X.Bech, A.Bech)),
			txOp("forged:DeleteWriter(A,a,W)/signedBy=W", s(W), aoltypes.NewMsgDeleteWriter("a", W.Bech, A.Bech)),
			txOp("forged:AddRecord(A,a,writer=W)/signedBy=X", s(X), aoltypes.NewMsgAddRecordRequest("a", []byte("kz"), []byte("vz"), W.Bech, A.Bech, "")),
			txOp("forged:AddRecord(A,a,writer=W,feepayer=F)/signedBy=F", s(F), aoltypes.NewMsgAddRecordRequest("a", []byte("kz"), []byte("vz"), W.Bech, A.Bech, F.Bech)),
			txOp("forged:AddRecord(A,a,writer=W,feepayer=F)/signedBy=W", s(W), aoltypes.NewMsgAddRecordRequest("a", []byte("kz"), []byte("vz"), W.Bech, A.Bech, F.Bech)),
			txOp("forged:AddRecord(A,a,writer=W,feepayer=F)/signedBy=F,X", s(F, X), aoltypes.NewMsgAddRecordRequest("a", []byte("kz"), []byte("vz"), W.Bech, A.Bech, F.Bech)),
			txOp("Grant(A->X,AddWriter)", s(A), grant(A, X, addWriterURL)),
			txOp("Grant(A->X,DeleteWriter)", s(A), grant(A, X, delWriterURL)),
			txOp("Revoke(A->X,AddWriter)", s(A), revoke(A, X, addWriterURL)),
			txOp("forged:Grant(A->X,AddWriter)/signedBy=X", s(X), grant(A, X, addWriterURL)),
			txOp("Exec(X,AddWriter(A,a,X))", s(X), exec(X, aoltypes.NewMsgAddWriter("a", "x", "", X.Bech, A.Bech))),
			txOp("Exec(X,DeleteWriter(A,a,W))", s(X), exec(X, aoltypes.NewMsgDeleteWriter("a", W.Bech, A.Bech))),
			txOp("Exec(X,CreateTopic(A,ab))", s(X), exec(X, aoltypes.NewMsgCreateTopic("ab", "evil", A.Bech))),
			txOp("Exec(X,AddRecord(A,a,writer=W))", s(X), exec(X, aoltypes.NewMsgAddRecordRequest("a", []byte("ke"), []byte("ve"), W.Bech, A.Bech, ""))),
			// a message executed by the very account it names needs no grant - and is judged exactly like the plain message
			txOp("Exec(X,AddRecord(A,a,writer=X))", s(X), exec(X, aoltypes.NewMsgAddRecordRequest("a", []byte("kx"), []byte("vxe"), X.Bech, A.Bech, ""))),
			txOp("Exec(X,AddWriter(owner=X,a,X))", s(X), exec(X, aoltypes.NewMsgAddWriter("a", "x", "", X.Bech, X.Bech))),
		)
	}
	ops = append(ops, ctlOps(v.Ctl...)...)
	return ops
}

// ---------------------------------------------------------------------------------------------
// Oracles
// ---------------------------------------------------------------------------------------------

// refSigners is the reference's own idea of who must sign a message - written from the property statements, NOT taken
// from the message's GetSigners (a GetSigners that names the wrong party is exactly one of the defects to be found):
// AOL topic/writer messages: the owner; add-record: the writer, preceded by the fee payer when one is named;
// DID messages: the relaying account; PNFT messages: the actor named in the message; authz: granter / grantee.
func refSigners(msg sdk.Msg) []sdk.AccAddress {
	a := func(ss ...string) []sdk.AccAddress {
		var out []sdk.AccAddress
		for _, s := range ss {
			x, err := sdk.AccAddressFromBech32(s)
			if err != nil {
				return nil
			}
			dup := false
			for _, o := range out {
				if o.Equals(x) {
					dup = true
				}
			}
			if !dup {
				out = append(out, x)
			}
		}
		return out
	}
	switch x := msg.(type) {
	case *aoltypes.MsgCreateTopicRequest:
		return a(x.OwnerAddress)
	case *aoltypes.MsgAddWriterRequest:
		return a(x.OwnerAddress)
	case *aoltypes.MsgDeleteWriterRequest:
		return a(x.OwnerAddress)
	case *aoltypes.MsgAddRecordRequest:
		if x.FeePayerAddress != "" {
			return a(x.FeePayerAddress, x.WriterAddress)
		}
		return a(x.WriterAddress)
	case *didtypes.MsgCreateDIDRequest:
		return a(x.FromAddress)
	case *didtypes.MsgUpdateDIDRequest:
		return a(x.FromAddress)
	case *didtypes.MsgDeactivateDIDRequest:
		return a(x.FromAddress)
	case *pnfttypes.MsgCreateDenomRequest:
		return a(x.Creator)
	case *pnfttypes.MsgUpdateDenomRequest:
		return a(x.Updater)
	case *pnfttypes.MsgDeleteDenomRequest:
		return a(x.Remover)
	case *pnfttypes.MsgTransferDenomRequest:
		return a(x.Sender)
	case *pnfttypes.MsgMintPNFTRequest:
		return a(x.Creator)
	case *pnfttypes.MsgTransferPNFTRequest:
		return a(x.Sender)
	case *pnfttypes.MsgBurnPNFTRequest:
		return a(x.Burner)
	case *authz.MsgGrant:
		return a(x.Granter)
	case *authz.MsgRevoke:
		return a(x.Granter)
	case *authz.MsgExec:
		return a(x.Grantee)
	}
	return msg.GetSigners() // SDK messages (bank, vesting): their signer rules are not this repository's
}

// signersCover reports whether the accounts that really signed equal the tx's required signer list.
func signersCover(msgs []sdk.Msg, signers []*world.Account) bool {
	var req []string
	seen := map[string]bool{}
	for _, m := range msgs {
		for _, a := range refSigners(m) {
			if !seen[string(a)] {
				seen[string(a)] = true
				req = append(req, string(a))
			}
		}
	}
	if len(req) != len(signers) {
		return false
	}
	for i := range req {
		if req[i] != string(signers[i].Addr) {
			return false
		}
	}
	return true
}

// aolExpect computes, for one AOL message executed with authority of its GetSigners, whether the ACL
// model accepts it, and applies the effect to m when apply is set.
func aolApply(m *aolModel, msg sdk.Msg, ts int64, apply bool) (bool, string) {
	switch x := msg.(type) {
	case *aoltypes.MsgCreateTopicRequest:
		o, _ := sdk.AccAddressFromBech32(x.OwnerAddress)
		k := tkey(o, x.TopicName)
		if _, ok := m.Topics[k]; ok {
			return false, "topic exists"
		}
		if apply {
			m.Topics[k] = &aolTopic{Owner: string(o), Name: x.TopicName, Desc: x.Description, Writers: map[string]aolWriter{}}
		}
		return true, ""
	case *aoltypes.MsgAddWriterRequest:
		o, _ := sdk.AccAddressFromBech32(x.OwnerAddress)
		wr, _ := sdk.AccAddressFromBech32(x.WriterAddress)
		t, ok := m.Topics[tkey(o, x.TopicName)]
		if !ok {
			return false, "no topic"
		}
		if _, ok := t.Writers[string(wr)]; ok {
			return false, "writer exists"
		}
		if apply {
			t.Writers[string(wr)] = aolWriter{Moniker: x.Moniker, Desc: x.Description, TS: ts}
		}
		return true, ""
	case *aoltypes.MsgDeleteWriterRequest:
		o, _ := sdk.AccAddressFromBech32(x.OwnerAddress)
		wr, _ := sdk.AccAddressFromBech32(x.WriterAddress)
		t, ok := m.Topics[tkey(o, x.TopicName)]
		if !ok {
			return false, "no topic"
		}
		if _, ok := t.Writers[string(wr)]; !ok {
			return false, "no writer"
		}
		if apply {
			delete(t.Writers, string(wr))
		}
		return true, ""
	case *aoltypes.MsgAddRecordRequest:
		o, _ := sdk.AccAddressFromBech32(x.OwnerAddress)
		wr, _ := sdk.AccAddressFromBech32(x.WriterAddress)
		t, ok := m.Topics[tkey(o, x.TopicName)]
		if !ok {
			return false, "no topic"
		}
		if _, ok := t.Writers[string(wr)]; !ok {
			return false, "writer not listed"
		}
		if apply {
			t.Records = append(t.Records, aolRecord{Key: x.Key, Value: x.Value, Writer: x.WriterAddress, TS: ts})
		}
		return true, ""
	}
	return false, "not an AOL message"
}

func grantKey(granter, grantee sdk.AccAddress, url string) string {
	return string(granter) + "|" + string(grantee) + "|" + url
}

// aolExpectTx: model verdict for a whole transaction (signature coverage + authz + ACL), applying effects to m.
func aolExpectTx(m *aolModel, spec *world.TxSpec, ts int64) (bool, string) {
	if !signersCover(spec.Msgs, spec.Signers) {
		return false, "signatures do not cover GetSigners"
	}
	// all-or-nothing: evaluate on a scratch copy first
	scratch := m.clone()
	for _, msg := range spec.Msgs {
		if ok, why := aolModelMsg(scratch, msg, ts); !ok {
			return false, why
		}
	}
	for _, msg := range spec.Msgs {
		aolModelMsg(m, msg, ts)
	}
	return true, ""
}

func aolModelMsg(m *aolModel, msg sdk.Msg, ts int64) (bool, string) {
	switch x := msg.(type) {
	case *authz.MsgGrant:
		g, _ := sdk.AccAddressFromBech32(x.Granter)
		e, _ := sdk.AccAddressFromBech32(x.Grantee)
		a, err := x.GetAuthorization()
		if err != nil {
			return false, err.Error()
		}
		m.Grants[grantKey(g, e, a.MsgTypeURL())] = true
		return true, ""
	case *authz.MsgRevoke:
		g, _ := sdk.AccAddressFromBech32(x.Granter)
		e, _ := sdk.AccAddressFromBech32(x.Grantee)
		k := grantKey(g, e, x.MsgTypeUrl)
		if !m.Grants[k] {
			return false, "no grant to revoke"
		}
		delete(m.Grants, k)
		return true, ""
	case *authz.MsgExec:
		grantee, _ := sdk.AccAddressFromBech32(x.Grantee)
		inner, err := x.GetMessages()
		if err != nil {
			return false, err.Error()
		}
		for _, im := range inner {
			sg := refSigners(im)
			if len(sg) != 1 {
				return false, "exec of multi-signer message"
			}
			if !bytes.Equal(sg[0], grantee) && !m.Grants[grantKey(sg[0], grantee, sdk.MsgTypeURL(im))] {
				return false, "no authorization"
			}
			if ok, why := aolApply(m, im, ts, true); !ok {
				return false, why
			}
		}
		return true, ""
	default:
		return aolApply(m, msg, ts, true)
	}
}

// raw key encoders, independent of types/compkey
func lp(b []byte) []byte { return append([]byte{byte(len(b))}, b...) }

func recKey(owner []byte, topic string, off uint64) []byte {
	var o [8]byte
	binary.BigEndian.PutUint64(o[:], off)
	k := []byte{0x03}
	k = append(k, lp(owner)...)
	k = append(k, lp([]byte(topic))...)
	k = append(k, lp(o[:])...)
	return k
}

func aolSystem(v aolVariant) *explore.System {
	acc := aolAccs()
	ops := aolOps(acc, v)
	sys := &explore.System{
		ID:     v.ID,
		Stores: []string{"aol", "authz"},
		Ops:    ops,
		Clone:  func(m any) any { return m.(*aolModel).clone() },
		Fresh: func() (*world.World, any) {
			opts := world.Options{Accounts: acc.all()}
			m := newAolModel()
			if v.Inject != nil {
				opts.Mutate = v.Inject.mutate
				v.Inject.fillModel(m)
			}
			return world.New(opts), m
		},
	}
	if !v.Forged {
		sys.Stores = []string{"aol"}
	}
	sys.Extra = func(m any) []byte { return m.(*aolModel).hash() }
	sys.OnStep = func(s *explore.Step) {
		m := s.M.(*aolModel)
		ts := world.BlockTime(s.W.Height).UnixNano()
		before := s.Before.(*aolModel)
		expect, why := aolExpectTx(m, s.Spec, ts)
		got := s.Res.Code == 0
		if got != expect {
			if v.OwnACL {
				s.Fail("acl", fmt.Sprintf("acl:%s:impl=%v,model=%v", s.Op.Name, got, expect),
					"model expects accept=%v (%s) but implementation returned code=%d codespace=%s log=%s", expect, why, s.Res.Code, s.Res.Codespace, s.Res.Log)
				return
			}
			// follow the implementation
			*m = *before.clone()
			if got {
				ok := true
				for _, msg := range s.Spec.Msgs {
					if o, _ := aolModelMsg(m, msg, ts); !o {
						ok = false
					}
				}
				if !ok {
					m.Unmodelled = true
				}
			}
		}
		post := s.W.Dump("aol")
		if !got {
			// every rejected attempt leaves topics, writers and records exactly as they were
			if v.OwnACL || v.OwnRec {
				if !world.EqualKVs(s.Pre["aol"], post) {
					s.Fail("rejected-changed-state", "rejected-changed-state:"+s.Op.Name, "rejected tx changed the aol store: %s", world.DiffKVs(s.Pre["aol"], post))
				}
			}
			return
		}
		// accepted
		if v.OwnRec {
			for i, msg := range s.Spec.Msgs {
				ar, ok := msg.(*aoltypes.MsgAddRecordRequest)
				if !ok {
					continue
				}
				o, _ := sdk.AccAddressFromBech32(ar.OwnerAddress)
				bt := before.Topics[tkey(o, ar.TopicName)]
				want := uint64(0)
				if bt != nil {
					want = uint64(len(bt.Records))
				}
				resps := s.W.MsgResponses(s.Res)
				if i >= len(resps) {
					s.Fail("no-response", "no-response:"+s.Op.Name, "no msg response decoded")
					continue
				}
				r, ok := resps[i].(*aoltypes.MsgAddRecordResponse)
				if !ok {
					s.Fail("no-response", "no-response:"+s.Op.Name, "unexpected response type %T", resps[i])
					continue
				}
				if r.Offset != want || r.TopicName != ar.TopicName || r.OwnerAddress != ar.OwnerAddress {
					s.Fail("offset", "offset:"+s.Op.Name, "reported offset %d (owner %s topic %s), model held %d records before the append", r.Offset, r.OwnerAddress, r.TopicName, want)
				}
			}
		}
	}
	sys.OnState = func(s *explore.State) {
		m := s.M.(*aolModel)
		if m.Unmodelled {
			return
		}
		if v.OwnRec {
			aolCheckRecords(s, m)
		}
		if v.OwnACL {
			aolCheckWriters(s, m)
		}
		if v.OwnCount {
			aolCheckCounters(s, m)
		}
	}
	sys.Outcome = func(s *explore.Step) string {
		cls := strings.SplitN(s.Op.Name, "(", 2)[0]
		if s.Res.Code == 0 {
			return cls + "/accepted"
		}
		return cls + "/rejected"
	}
	return sys
}

// aolCheckRecords: every acknowledged record is served unchanged; the record store equals the model exactly.
func aolCheckRecords(s *explore.State, m *aolModel) {
	ctx := sdk.WrapSDKContext(s.W.Ctx())
	want := map[string]aolRecord{}
	for _, k := range sortedKeys(m.Topics) {
		t := m.Topics[k]
		for n, r := range t.Records {
			want[string(recKey([]byte(t.Owner), t.Name, uint64(n)))] = r
			if len(t.Owner) > 0 {
				res, err := s.W.App.AolKeeper.Record(ctx, &aoltypes.QueryRecordRequest{OwnerAddress: sdk.AccAddress(t.Owner).String(), TopicName: t.Name, Offset: uint64(n)})
				sig := fmt.Sprintf("record-query:%s/%s/%d", sdk.AccAddress(t.Owner).String()[:12], t.Name, n)
				if err != nil {
					s.Fail("record-lost", sig+":err", "acknowledged record (%s,%d) not served: %v", t.Name, n, err)
					continue
				}
				g := res.Record
				if !bytes.Equal(g.Key, r.Key) || !bytes.Equal(g.Value, r.Value) || g.WriterAddress != r.Writer || g.NanoTimestamp != r.TS {
					s.Fail("record-changed", sig+":diff", "record (%s,%d): got key=%q value=%q writer=%s ts=%d want key=%q value=%q writer=%s ts=%d",
						t.Name, n, g.Key, g.Value, g.WriterAddress, g.NanoTimestamp, r.Key, r.Value, r.Writer, r.TS)
				}
			}
		}
	}
	got := s.W.DumpPrefix("aol", []byte{0x03})
	if len(got) != len(want) {
		s.Fail("record-set", "record-set:count", "record store holds %d entries, model %d", len(got), len(want))
	}
	for _, kv := range got {
		r, ok := want[string(kv.K)]
		if !ok {
			s.Fail("record-set", "record-set:extra", "record store holds an entry the model does not have: key %x", kv.K)
			continue
		}
		var rec aoltypes.Record
		if err := rec.Unmarshal(kv.V); err != nil {
			s.Fail("record-set", "record-set:undecodable", "record %x undecodable: %v", kv.K, err)
			continue
		}
		if !bytes.Equal(rec.Key, r.Key) || !bytes.Equal(rec.Value, r.Value) || rec.WriterAddress != r.Writer || rec.NanoTimestamp != r.TS {
			s.Fail("record-changed", "record-set:diff", "stored record %x differs from acknowledged content", kv.K)
		}
	}
}

// aolCheckWriters: the writer list in the store equals the model's (C02: writer list changes only through owner txs).
func aolCheckWriters(s *explore.State, m *aolModel) {
	want := map[string]aolWriter{}
	for _, t := range m.Topics {
		for wk, wv := range t.Writers {
			k := []byte{0x02}
			k = append(k, lp([]byte(t.Owner))...)
			k = append(k, lp([]byte(t.Name))...)
			k = append(k, lp([]byte(wk))...)
			want[string(k)] = wv
		}
	}
	got := s.W.DumpPrefix("aol", []byte{0x02})
	if len(got) != len(want) {
		s.Fail("writer-set", "writer-set:count", "writer store holds %d entries, model %d", len(got), len(want))
		return
	}
	for _, kv := range got {
		wv, ok := want[string(kv.K)]
		if !ok {
			s.Fail("writer-set", "writer-set:extra", "writer store holds an entry the model does not have: %x", kv.K)
			continue
		}
		var wr aoltypes.Writer
		if err := wr.Unmarshal(kv.V); err != nil || wr.Moniker != wv.Moniker || wr.Description != wv.Desc || wr.NanoTimestamp != wv.TS {
			s.Fail("writer-set", "writer-set:diff", "stored writer %x differs from model (%+v vs %+v)", kv.K, wr, wv)
		}
	}
	// topics exist only under the address of the account whose signature created them
	gotT := s.W.DumpPrefix("aol", []byte{0x01})
	if len(gotT) != len(m.Topics) {
		s.Fail("topic-set", "topic-set:count", "topic store holds %d entries, model %d", len(gotT), len(m.Topics))
	}
	for _, t := range m.Topics {
		k := []byte{0x01}
		k = append(k, lp([]byte(t.Owner))...)
		k = append(k, lp([]byte(t.Name))...)
		found := false
		for _, kv := range gotT {
			if bytes.Equal(kv.K, k) {
				found = true
				var tp aoltypes.Topic
				if err := tp.Unmarshal(kv.V); err != nil || tp.Description != t.Desc {
					s.Fail("topic-set", "topic-set:diff", "topic %s description %q != model %q", t.Name, tp.Description, t.Desc)
				}
			}
		}
		if !found {
			s.Fail("topic-set", "topic-set:missing", "topic %s of model missing in store", t.Name)
		}
	}
}

// ---- C13: counters and pagination ---------------------------------------------------------------

type pageReq struct {
	name string
	mk   func() *query.PageRequest
}

func aolCheckCounters(s *explore.State, m *aolModel) {
	ctx := sdk.WrapSDKContext(s.W.Ctx())
	k := s.W.App.AolKeeper
	// owner counters from the raw store (there is no owner query; the counter is visible in store and export)
	ownersWant := map[string]int{}
	for _, t := range m.Topics {
		ownersWant[t.Owner]++
	}
	gotOwners := s.W.DumpPrefix("aol", []byte{0x00})
	if len(gotOwners) != len(ownersWant) {
		s.Fail("owner-count", "owner-count:set", "owner store holds %d owners, model %d", len(gotOwners), len(ownersWant))
	}
	for _, kv := range gotOwners {
		if len(kv.K) < 2 || int(kv.K[1]) != len(kv.K)-2 {
			s.Fail("owner-count", "owner-count:key", "malformed owner key %x", kv.K)
			continue
		}
		var o aoltypes.Owner
		if err := o.Unmarshal(kv.V); err != nil {
			s.Fail("owner-count", "owner-count:decode", "owner %x undecodable", kv.K)
			continue
		}
		if int(o.TotalTopics) != ownersWant[string(kv.K[2:])] {
			s.Fail("owner-count", fmt.Sprintf("owner-count:len%d", len(kv.K)-2), "owner %x total_topics=%d but %d topics exist", kv.K[2:], o.TotalTopics, ownersWant[string(kv.K[2:])])
		}
	}
	// the records really stored (raw store), independent of the model's own bookkeeping of acknowledged appends
	storedRec := map[string]bool{}
	for _, kv := range s.W.DumpPrefix("aol", []byte{0x03}) {
		storedRec[string(kv.K)] = true
	}
	reportedRec, allTopicsAnswered := 0, true
	defer func() {
		if allTopicsAnswered && reportedRec != len(storedRec) {
			s.Fail("topic-count", "topic-count:records-stored-total", "the topics report %d records in all, the record store holds %d", reportedRec, len(storedRec))
		}
	}()
	// per-topic counters
	for _, tk := range sortedKeys(m.Topics) {
		t := m.Topics[tk]
		ownerBech := sdk.AccAddress(t.Owner).String()
		res, err := k.Topic(ctx, &aoltypes.QueryTopicRequest{OwnerAddress: ownerBech, TopicName: t.Name})
		if err != nil {
			allTopicsAnswered = false
			s.Fail("topic-count", "topic-count:query", "Topic(%x,%s): %v", t.Owner, t.Name, err)
			continue
		}
		reportedRec += int(res.Topic.TotalRecords)
		if res.Topic.TotalRecords <= 4096 {
			for n := uint64(0); n < res.Topic.TotalRecords; n++ {
				if !storedRec[string(recKey([]byte(t.Owner), t.Name, n))] {
					s.Fail("topic-count", "topic-count:records-stored", "topic (%x,%s) total_records=%d but no record is stored at offset %d", t.Owner, t.Name, res.Topic.TotalRecords, n)
					break
				}
			}
			if storedRec[string(recKey([]byte(t.Owner), t.Name, res.Topic.TotalRecords))] {
				s.Fail("topic-count", "topic-count:records-stored", "topic (%x,%s) total_records=%d but a record is stored at that offset", t.Owner, t.Name, res.Topic.TotalRecords)
			}
		}
		if int(res.Topic.TotalWriters) != len(t.Writers) {
			s.Fail("topic-count", "topic-count:writers", "topic (%x,%s) total_writers=%d, %d writers listed", t.Owner, t.Name, res.Topic.TotalWriters, len(t.Writers))
		}
		if int(res.Topic.TotalRecords) != len(t.Records) {
			s.Fail("topic-count", "topic-count:records", "topic (%x,%s) total_records=%d, %d records stored", t.Owner, t.Name, res.Topic.TotalRecords, len(t.Records))
		}
		// writers listing
		var want []string
		for wk := range t.Writers {
			want = append(want, sdk.AccAddress(wk).String())
		}
		wantSorted := sortByRaw(want)
		pageMatrix(s, "writers", fmt.Sprintf("%d/%s", len(t.Owner), t.Name), wantSorted, func(p *query.PageRequest) ([]string, *query.PageResponse, error) {
			r, err := k.Writers(ctx, &aoltypes.QueryWritersRequest{OwnerAddress: ownerBech, TopicName: t.Name, Pagination: p})
			if err != nil {
				return nil, nil, err
			}
			return r.WriterAddresses, r.Pagination, nil
		})
	}
	// topics listing per owner (including owners of the alphabet that have none)
	owners := m.owners()
	for _, o := range owners {
		ownerBech := sdk.AccAddress(o).String()
		want := m.topicsOf([]byte(o))
		pageMatrix(s, "topics", fmt.Sprintf("owner-len%d", len(o)), want, func(p *query.PageRequest) ([]string, *query.PageResponse, error) {
			r, err := k.Topics(ctx, &aoltypes.QueryTopicsRequest{OwnerAddress: ownerBech, Pagination: p})
			if err != nil {
				return nil, nil, err
			}
			return r.TopicNames, r.Pagination, nil
		})
	}
}

// sortByRaw sorts bech32 addresses by their raw bytes (store order).
func sortByRaw(bech []string) []string {
	type p struct {
		raw  string
		bech string
	}
	var ps []p
	for _, b := range bech {
		a, _ := sdk.AccAddressFromBech32(b)
		ps = append(ps, p{string(a), b})
	}
	sort.Slice(ps, func(i, j int) bool { // store order: length-prefixed components
		if len(ps[i].raw) != len(ps[j].raw) {
			return len(ps[i].raw) < len(ps[j].raw)
		}
		return ps[i].raw < ps[j].raw
	})
	out := make([]string, len(ps))
	for i := range ps {
		out[i] = ps[i].bech
	}
	return out
}

// pageMatrix runs the full pagination request matrix against one listing; want is in store (ascending key) order.
func pageMatrix(s *explore.State, what, id string, want []string, call func(*query.PageRequest) ([]string, *query.PageResponse, error)) {
	n := len(want)
	fail := func(kind string, format string, a ...any) {
		s.Fail("paging-"+what, fmt.Sprintf("paging-%s:%s", what, kind), "%s[%s]: "+format, append([]any{what, id}, a...)...)
	}
	rev := func(xs []string) []string {
		out := make([]string, len(xs))
		for i := range xs {
			out[len(xs)-1-i] = xs[i]
		}
		return out
	}
	eq := func(a, b []string) bool {
		if len(a) != len(b) {
			return false
		}
		for i := range a {
			if a[i] != b[i] {
				return false
			}
		}
		return true
	}
	// nil request
	got, _, err := call(nil)
	if err != nil {
		fail("nil-err", "nil pagination: %v", err)
	} else {
		wantNil := want
		if n > 100 {
			wantNil = want[:100] // the SDK's default page size
		}
		if !eq(got, wantNil) {
			fail("nil", "nil pagination returned %v want %v", got, wantNil)
		}
	}
	limits := []uint64{1, 2, uint64(n + 1)}
	offsets := make([]int, 0, n+2)
	for off := 0; off <= n+1; off++ {
		offsets = append(offsets, off)
	}
	if n > 40 { // large listings: offsets around both ends and around the default page size, larger key-walk pages
		limits = []uint64{7, 100, uint64(n + 1)}
		offsets = offsets[:0]
		for _, off := range []int{0, 1, 2, 98, 99, 100, 101, n - 2, n - 1, n, n + 1} {
			if off >= 0 && off <= n+1 {
				offsets = append(offsets, off)
			}
		}
	}
	for _, reverse := range []bool{false, true} {
		exp := want
		if reverse {
			exp = rev(want)
		}
		for _, ct := range []bool{false, true} {
			for _, lim := range limits {
				// key walk
				var all []string
				var key []byte
				steps := 0
				for {
					got, pr, err := call(&query.PageRequest{Key: key, Limit: lim, Reverse: reverse, CountTotal: ct})
					if err != nil {
						fail("keywalk-err", "key walk limit=%d reverse=%v: %v", lim, reverse, err)
						break
					}
					if uint64(len(got)) > lim {
						fail("keywalk-limit", "page of %d items exceeds limit %d", len(got), lim)
					}
					all = append(all, got...)
					steps++
					if pr == nil || len(pr.NextKey) == 0 || steps > n+2 {
						break
					}
					key = pr.NextKey
				}
				if !eq(all, exp) {
					fail("keywalk", "key walk limit=%d reverse=%v count_total=%v yields %v want %v", lim, reverse, ct, all, exp)
				}
				// offset based
				if lim == limits[0] { // once per (reverse, count_total): offset-based requests that leave the limit unset (= default page of 100)
					for _, off := range offsets {
						got, _, err := call(&query.PageRequest{Offset: uint64(off), Reverse: reverse, CountTotal: ct})
						if err != nil {
							fail("offset-err", "offset=%d no limit reverse=%v: %v", off, reverse, err)
							continue
						}
						lo := off
						if lo > n {
							lo = n
						}
						hi := lo + 100
						if hi > n {
							hi = n
						}
						if !eq(got, exp[lo:hi]) {
							fail("offset-nolimit", "offset=%d without limit reverse=%v count_total=%v yields %v want %v", off, reverse, ct, got, exp[lo:hi])
						}
					}
				}
				for _, off := range offsets {
					got, pr, err := call(&query.PageRequest{Offset: uint64(off), Limit: lim, Reverse: reverse, CountTotal: ct})
					if err != nil {
						fail("offset-err", "offset=%d limit=%d reverse=%v: %v", off, lim, reverse, err)
						continue
					}
					lo := off
					if lo > n {
						lo = n
					}
					hi := lo + int(lim)
					if hi > n {
						hi = n
					}
					if !eq(got, exp[lo:hi]) {
						fail("offset", "offset=%d limit=%d reverse=%v count_total=%v yields %v want %v", off, lim, reverse, ct, got, exp[lo:hi])
					}
					if ct && pr != nil && pr.Total != uint64(n) {
						fail("total", "offset=%d limit=%d reverse=%v: total=%d want %d", off, lim, reverse, pr.Total, n)
					}
				}
			}
		}
	}
}

// ---- C13 genesis injection -----------------------------------------------------------------------

type aolInject struct {
	Owners [][]byte
	Topics []string
	// Big: a topic (owner, name) that already holds N records written by Writer (offset encodings beyond one byte)
	Big *aolBig
}

type aolBig struct {
	Owner, Writer *world.Account
	Name          string
	N             int
}

func (in *aolInject) writerAddr() []byte { return bytes.Repeat([]byte{0x77}, 33) }

func (in *aolInject) mutate(gs map[string]json.RawMessage, cdc codec.Codec) {
	var g aoltypes.GenesisState
	cdc.MustUnmarshalJSON(gs["aol"], &g)
	if g.Owners == nil {
		g.Owners = map[string]*aoltypes.Owner{}
		g.Topics = map[string]*aoltypes.Topic{}
		g.Writers = map[string]*aoltypes.Writer{}
		g.Records = map[string]*aoltypes.Record{}
	}
	wr := sdk.AccAddress(in.writerAddr())
	for _, o := range in.Owners {
		ob := sdk.AccAddress(o).String()
		g.Owners[ob] = &aoltypes.Owner{TotalTopics: uint64(len(in.Topics))}
		for _, t := range in.Topics {
			g.Topics[ob+"/"+t] = &aoltypes.Topic{Description: "inj", TotalWriters: 1, TotalRecords: 1}
			g.Writers[ob+"/"+t+"/"+wr.String()] = &aoltypes.Writer{Moniker: "inj", NanoTimestamp: 7}
			g.Records[ob+"/"+t+"/0"] = &aoltypes.Record{Key: []byte("ik"), Value: []byte("iv"), NanoTimestamp: 7, WriterAddress: wr.String()}
		}
	}
	if b := in.Big; b != nil {
		ob := b.Owner.Bech
		g.Owners[ob] = &aoltypes.Owner{TotalTopics: 1}
		g.Topics[ob+"/"+b.Name] = &aoltypes.Topic{Description: "big", TotalWriters: 1, TotalRecords: uint64(b.N)}
		g.Writers[ob+"/"+b.Name+"/"+b.Writer.Bech] = &aoltypes.Writer{Moniker: "w", NanoTimestamp: 9}
		for i := 0; i < b.N; i++ {
			g.Records[fmt.Sprintf("%s/%s/%d", ob, b.Name, i)] = &aoltypes.Record{Key: []byte(fmt.Sprint(i)), Value: []byte("big"), NanoTimestamp: 9, WriterAddress: b.Writer.Bech}
		}
	}
	gs["aol"] = cdc.MustMarshalJSON(&g)
}

func (in *aolInject) fillModel(m *aolModel) {
	if b := in.Big; b != nil {
		t := &aolTopic{Owner: string(b.Owner.Addr), Name: b.Name, Desc: "big", Writers: map[string]aolWriter{string(b.Writer.Addr): {Moniker: "w", TS: 9}}}
		for i := 0; i < b.N; i++ {
			t.Records = append(t.Records, aolRecord{Key: []byte(fmt.Sprint(i)), Value: []byte("big"), Writer: b.Writer.Bech, TS: 9})
		}
		m.Topics[tkey(b.Owner.Addr, b.Name)] = t
	}
	wr := sdk.AccAddress(in.writerAddr())
	for _, o := range in.Owners {
		for _, t := range in.Topics {
			m.Topics[tkey(o, t)] = &aolTopic{Owner: string(o), Name: t, Desc: "inj",
				Writers: map[string]aolWriter{string(wr): {Moniker: "inj", TS: 7}},
				Records: []aolRecord{{Key: []byte("ik"), Value: []byte("iv"), Writer: wr.String(), TS: 7}}}
		}
	}
}

// ---------------------------------------------------------------------------------------------
// Entry points
// ---------------------------------------------------------------------------------------------

func C01(t Tier) int {
	run := report.NewRun("C01", t.Name, "model_checking", "E1+E2")
	v := aolVariant{ID: "C01", OwnRec: true, Ctl: []string{"NB", "RS", "XI"}}
	sys := aolSystem(v)
	dl := deadline(t, 120*time.Second, 15*time.Minute)
	bounds := []explore.Bounds{{Depth: 4, V: 1, Deadline: dl}, {Depth: 5, V: 1, Deadline: dl}}
	if t.Thorough {
		bounds = []explore.Bounds{{Depth: 5, V: 1, Deadline: dl}, {Depth: 5, V: 2, Deadline: dl}, {Depth: 6, V: 2, Deadline: dl}, {Depth: 7, V: 2, Deadline: dl}}
	}
	RunGraph(run, sys, bounds, 6)
	// third system: two topics of one owner whose names differ only in letter case (reduced alphabet, deeper)
	cs := aolSystem(aolVariant{ID: "C01/case", OwnRec: true, OwnACL: true, OwnCount: true, Case: true, Ctl: []string{"XI"}})
	cdl := deadline(t, 45*time.Second, 4*time.Minute)
	RunGraph(run, cs, []explore.Bounds{{Depth: 6, V: 1, Deadline: cdl}, {Depth: 7, V: 1, Deadline: cdl}}, 4)
	// second initial state: topic (A,a) already holds 255 records (genesis-injected), so that the explored appends are
	// handed offsets 255, 256, 257 (offset encodings beyond one byte)
	acc := aolAccs()
	big := aolSystem(aolVariant{ID: "C01/big", OwnRec: true, Ctl: []string{"NB", "XI"}, Inject: &aolInject{Big: &aolBig{Owner: acc.A, Writer: acc.W, Name: "a", N: 255}}})
	RunGraph(run, big, []explore.Bounds{{Depth: 3, V: 1, Deadline: deadline(t, 45*time.Second, 4*time.Minute)}}, 6)
	run.Assumptions = []string{
		"alphabet: 2 owners x 2 topic names (a, ab: one a byte-prefix of the other), writers W and A, fee payer F, outsider X; record values from a 5-entry menu",
		"offsets up to 257 are reached through a genesis-injected topic holding 255 records; larger offsets and values outside the alphabet are not explored",
		"acceptance decisions are followed, not judged (that is C02); records/offsets are judged on every transition and state",
	}
	return run.Finish()
}

func C02(t Tier) int {
	run := report.NewRun("C02", t.Name, "model_checking", "E1+E2")
	v := aolVariant{ID: "C02", Forged: true, OwnACL: true, Ctl: []string{"NB", "XI"}} // XI: the writer list must not change through an export/import either
	sys := aolSystem(v)
	dl := deadline(t, 120*time.Second, 15*time.Minute)
	bounds := []explore.Bounds{{Depth: 4, V: 1, Deadline: dl}, {Depth: 5, V: 1, Deadline: dl}}
	if t.Thorough {
		bounds = []explore.Bounds{{Depth: 5, V: 1, Deadline: dl}, {Depth: 6, V: 1, Deadline: dl}, {Depth: 6, V: 2, Deadline: dl}, {Depth: 7, V: 2, Deadline: dl}}
	}
	RunGraph(run, sys, bounds, 8)
	// second system: two topics of one owner whose names differ only in letter case have separate writer lists
	cs := aolSystem(aolVariant{ID: "C02/case", OwnACL: true, OwnCount: true, Case: true, Ctl: []string{"NB"}})
	cdl := deadline(t, 45*time.Second, 4*time.Minute)
	RunGraph(run, cs, []explore.Bounds{{Depth: 5, V: 1, Deadline: cdl}, {Depth: 6, V: 1, Deadline: cdl}}, 4)
	// third system: topic names at the length limit (69 and 70 bytes): the longest store keys the module ever builds
	ls := aolSystem(aolVariant{ID: "C02/long-names", OwnACL: true, OwnCount: true, Names: []string{strings.Repeat("x", 69), strings.Repeat("Z", 70)}, Ctl: []string{"NB"}})
	ldl := deadline(t, 30*time.Second, 3*time.Minute)
	RunGraph(run, ls, []explore.Bounds{{Depth: 4, V: 1, Deadline: ldl}, {Depth: 5, V: 1, Deadline: ldl}}, 4)
	run.Assumptions = []string{
		"accounts are plain secp256k1 key accounts; x/group policy accounts and governance-executed messages are outside the alphabet",
		"delegation = x/authz GenericAuthorization without expiry",
		"forged(m, by Y): message names X, the only signature (and SignerInfo public key) is Y's",
	}
	return run.Finish()
}

func C13(t Tier) int {
	run := report.NewRun("C13", t.Name, "model_checking", "E1+E2")
	A := world.NewAccount("A")
	_ = A
	injects := []*aolInject{nil, c13Inject()}
	depth := 5
	if t.Thorough {
		depth = 6
	}
	for i, in := range injects {
		v := aolVariant{ID: fmt.Sprintf("C13/init%d", i), OwnCount: true, Ctl: []string{"NB", "XI"}, Inject: in}
		sys := aolSystem(v)
		d := depth
		if in != nil {
			d = depth - 1
		}
		idl := deadline(t, 75*time.Second, 8*time.Minute) // each initial state has its own budget
		RunGraph(run, sys, []explore.Bounds{{Depth: d - 1, V: 1, Deadline: idl}, {Depth: d, V: 1, Deadline: idl}}, 6)
	}
	run.Assumptions = []string{
		"initial states: empty; and a genesis with owners of address length 1, 19 (prefix of A), 21 (A plus one byte), 32, 255 and topic names a/ab/abc/70xz",
		"pagination matrix per listing: nil; key walk and offset 0..N+1 for limit in {1,2,N+1} x reverse x count_total",
	}
	return run.Finish()
}

func c13Inject() *aolInject {
	A := world.NewAccount("A")
	return &aolInject{Owners: [][]byte{{0x41}, append(append([]byte{}, A.Addr...), 0x01), bytes.Repeat([]byte{0x42}, 32), bytes.Repeat([]byte{0x43}, 255), A.Addr[:19]},
		Topics: []string{"a", "ab", "abc", strings.Repeat("z", 70)}}
}
