package checks

import (
	"bytes"
	"crypto/sha256"
	"encoding/json"
	"fmt"
	"sort"
	"strings"
	"time"

	"github.com/cosmos/cosmos-sdk/codec"
	sdk "github.com/cosmos/cosmos-sdk/types"
	"github.com/cosmos/cosmos-sdk/types/query"
	authtypes "github.com/cosmos/cosmos-sdk/x/auth/types"
	"github.com/cosmos/cosmos-sdk/x/authz"
	govtypes "github.com/cosmos/cosmos-sdk/x/gov/types"
	govv1 "github.com/cosmos/cosmos-sdk/x/gov/types/v1"
	pnfttypes "github.com/medibloc/panacea-core/v2/x/pnft/types"

	"verif/engine/explore"
	"verif/engine/report"
	"verif/engine/world"
)

// ---------------------------------------------------------------------------------------------
// Reference ownership model
// ---------------------------------------------------------------------------------------------

type pDenom struct {
	ID, Name, Symbol, Desc, URI, URIHash, Data string
	Owner                                      string // as recorded (spelling included)
}

type pToken struct {
	Denom, ID, Name, Desc, URI, URIHash, Data, Creator string
	CreatedAt                                          time.Time
	Owner                                              string // raw address bytes
}

type pnftModel struct {
	Denoms map[string]*pDenom
	Tokens map[string]*pToken // key denom + "\xff" + id
	Grants map[string]bool
}

func tokKey(d, id string) string { return fmt.Sprintf("%d:%s:%s", len(d), d, id) }

func newPnftModel() *pnftModel {
	return &pnftModel{Denoms: map[string]*pDenom{}, Tokens: map[string]*pToken{}, Grants: map[string]bool{}}
}

func (m *pnftModel) clone() *pnftModel {
	n := newPnftModel()
	for k, v := range m.Denoms {
		c := *v
		n.Denoms[k] = &c
	}
	for k, v := range m.Tokens {
		c := *v
		n.Tokens[k] = &c
	}
	for k, v := range m.Grants {
		n.Grants[k] = v
	}
	return n
}

func (m *pnftModel) hash() []byte {
	h := sha256.New()
	for _, k := range sortedKeys(m.Denoms) {
		fmt.Fprintf(h, "D%q=%+v;", k, *m.Denoms[k])
	}
	for _, k := range sortedKeys(m.Tokens) {
		fmt.Fprintf(h, "T%q=%+v;", k, *m.Tokens[k])
	}
	for _, k := range sortedKeys(m.Grants) {
		fmt.Fprintf(h, "G%q;", k)
	}
	return h.Sum(nil)
}

func (m *pnftModel) tokensOf(denom string) []*pToken {
	var out []*pToken
	for _, t := range m.Tokens {
		if t.Denom == denom {
			out = append(out, t)
		}
	}
	sort.Slice(out, func(i, j int) bool { return out[i].ID < out[j].ID })
	return out
}

type verdict int

const (
	mustReject verdict = iota
	mustAccept
	eitherWay // safety holds both ways (spelling quirk of string comparison); follow the implementation
)

func sameAddr(a, b string) bool {
	x, err1 := sdk.AccAddressFromBech32(a)
	y, err2 := sdk.AccAddressFromBech32(b)
	return err1 == nil && err2 == nil && bytes.Equal(x, y)
}

func ownerVerdict(actor, owner string) verdict {
	if !sameAddr(actor, owner) {
		return mustReject
	}
	if actor == owner {
		return mustAccept
	}
	return eitherWay
}

// pnftJudge returns the reference verdict for one message and an apply function for its effect.
func pnftJudge(m *pnftModel, msg sdk.Msg, now time.Time, strictDelete bool) (verdict, string, func()) {
	switch x := msg.(type) {
	case *pnfttypes.MsgCreateDenomRequest:
		if strings.Contains(x.Id, "\x00") {
			return mustReject, "identifier contains the x/nft key delimiter", nil
		}
		if _, ok := m.Denoms[x.Id]; ok {
			return mustReject, "denom exists", nil
		}
		return mustAccept, "", func() {
			m.Denoms[x.Id] = &pDenom{ID: x.Id, Name: x.Name, Symbol: x.Symbol, Desc: x.Description, URI: x.Uri, URIHash: x.UriHash, Data: x.Data, Owner: x.Creator}
		}
	case *pnfttypes.MsgUpdateDenomRequest:
		d, ok := m.Denoms[x.Id]
		if !ok {
			return mustReject, "no denom", nil
		}
		v := ownerVerdict(x.Updater, d.Owner)
		return v, "updater is not the denom owner", func() {
			set := func(dst *string, v string) {
				if v != "" {
					*dst = v
				}
			}
			set(&d.Name, x.Name)
			set(&d.Symbol, x.Symbol)
			set(&d.Desc, x.Description)
			set(&d.URI, x.Uri)
			set(&d.URIHash, x.UriHash)
			set(&d.Data, x.Data)
		}
	case *pnfttypes.MsgDeleteDenomRequest:
		d, ok := m.Denoms[x.Id]
		if !ok {
			return mustReject, "no denom", nil
		}
		v := ownerVerdict(x.Remover, d.Owner)
		if v != mustReject && strictDelete && len(m.tokensOf(x.Id)) > 0 {
			return mustReject, "denom still has tokens (every existing token must belong to an existing denom)", nil
		}
		return v, "remover is not the denom owner", func() { delete(m.Denoms, x.Id) }
	case *pnfttypes.MsgTransferDenomRequest:
		d, ok := m.Denoms[x.Id]
		if !ok {
			return mustReject, "no denom", nil
		}
		return ownerVerdict(x.Sender, d.Owner), "sender is not the denom owner", func() { d.Owner = x.Receiver }
	case *pnfttypes.MsgMintPNFTRequest:
		if strings.Contains(x.Id, "\x00") || strings.Contains(x.DenomId, "\x00") {
			return mustReject, "identifier contains the x/nft key delimiter", nil
		}
		d, ok := m.Denoms[x.DenomId]
		if !ok {
			return mustReject, "no denom", nil
		}
		if _, ok := m.Tokens[tokKey(x.DenomId, x.Id)]; ok {
			return mustReject, "token id exists in denom", nil
		}
		return ownerVerdict(x.Creator, d.Owner), "minter is not the denom owner", func() {
			a, _ := sdk.AccAddressFromBech32(x.Creator)
			m.Tokens[tokKey(x.DenomId, x.Id)] = &pToken{Denom: x.DenomId, ID: x.Id, Name: x.Name, Desc: x.Description, URI: x.Uri, URIHash: x.UriHash,
				Data: x.Data, Creator: x.Creator, CreatedAt: now, Owner: string(a)}
		}
	case *pnfttypes.MsgTransferPNFTRequest:
		t, ok := m.Tokens[tokKey(x.DenomId, x.Id)]
		if !ok {
			return mustReject, "no token", nil
		}
		if _, ok := m.Denoms[x.DenomId]; !ok {
			return mustReject, "no denom", nil
		}
		return ownerVerdict(x.Sender, sdk.AccAddress(t.Owner).String()), "sender is not the token owner", func() {
			a, _ := sdk.AccAddressFromBech32(x.Receiver)
			t.Owner = string(a)
		}
	case *pnfttypes.MsgBurnPNFTRequest:
		t, ok := m.Tokens[tokKey(x.DenomId, x.Id)]
		if !ok {
			return mustReject, "no token", nil
		}
		if _, ok := m.Denoms[x.DenomId]; !ok {
			return mustReject, "no denom", nil
		}
		return ownerVerdict(x.Burner, sdk.AccAddress(t.Owner).String()), "burner is not the token owner", func() { delete(m.Tokens, tokKey(x.DenomId, x.Id)) }
	}
	return mustReject, "not a pnft message", nil
}

// pnftJudgeTx handles signature coverage and authz wrapping for a single-message transaction.
func pnftJudgeTx(m *pnftModel, spec *world.TxSpec, now time.Time, strictDelete bool) (verdict, string, func()) {
	if !signersCover(spec.Msgs, spec.Signers) {
		return mustReject, "signatures do not cover GetSigners", nil
	}
	switch x := spec.Msgs[0].(type) {
	case *authz.MsgGrant:
		g, _ := sdk.AccAddressFromBech32(x.Granter)
		e, _ := sdk.AccAddressFromBech32(x.Grantee)
		a, _ := x.GetAuthorization()
		return mustAccept, "", func() { m.Grants[grantKey(g, e, a.MsgTypeURL())] = true }
	case *authz.MsgRevoke:
		g, _ := sdk.AccAddressFromBech32(x.Granter)
		e, _ := sdk.AccAddressFromBech32(x.Grantee)
		k := grantKey(g, e, x.MsgTypeUrl)
		if !m.Grants[k] {
			return mustReject, "no grant", nil
		}
		return mustAccept, "", func() { delete(m.Grants, k) }
	case *govv1.MsgSubmitProposal, *govv1.MsgVote:
		// governance traffic is not this repository's: followed. What a proposal does to PNFT state when the gov module's
		// end blocker executes it is judged by the state oracle (the gov module account never owns anything here).
		return eitherWay, "", nil
	case *authz.MsgExec:
		grantee, _ := sdk.AccAddressFromBech32(x.Grantee)
		inner, _ := x.GetMessages()
		im := inner[0]
		sg := refSigners(im)
		if len(sg) != 1 {
			return mustReject, "multi-signer", nil
		}
		if !bytes.Equal(sg[0], grantee) && !m.Grants[grantKey(sg[0], grantee, sdk.MsgTypeURL(im))] {
			return mustReject, "no authorization from the actor named in the message", nil
		}
		return pnftJudge(m, im, now, strictDelete)
	}
	if len(spec.Msgs) == 1 {
		return pnftJudge(m, spec.Msgs[0], now, strictDelete)
	}
	// all-or-nothing over several messages
	scratch := m.clone()
	overall := mustAccept
	for _, msg := range spec.Msgs {
		vd, why, apply := pnftJudge(scratch, msg, now, strictDelete)
		if vd == mustReject {
			return mustReject, why, nil
		}
		if vd == eitherWay {
			overall = eitherWay
		}
		if apply != nil {
			apply()
		}
	}
	return overall, "", func() {
		for _, msg := range spec.Msgs {
			if _, _, apply := pnftJudge(m, msg, now, strictDelete); apply != nil {
				apply()
			}
		}
	}
}

// ---------------------------------------------------------------------------------------------
// Alphabet
// ---------------------------------------------------------------------------------------------

type pnftVariant struct {
	ID           string
	Wide         bool // C12: identifier alphabet with NUL separators
	Auth         bool // C06: forged + authz entries
	Queries      bool // C12: full query matrix per state
	StrictDelete bool // reference refuses deleting a denom that still has tokens
	Gov          bool // C06/gov: reduced PNFT alphabet + the governance route (proposal, vote, gov end blocker)
	Bulk         int  // genesis-injected filler denoms (owners A/B alternating), each holding one token owned by C
	Ctl          []string
}

type pnftEnv struct {
	A, B, C *world.Account
	AUpper  string
	Denoms  []string
	TokIDs  []string
}

func newPnftEnv(v pnftVariant) *pnftEnv {
	e := &pnftEnv{A: world.NewAccount("A"), B: world.NewAccount("B"), C: world.NewAccount("C")}
	e.AUpper = strings.ToUpper(e.A.Bech)
	e.Denoms = []string{"d", "dd"}
	e.TokIDs = []string{"t", "tt"}
	if v.Wide {
		e.Denoms = []string{"d", "dd", "d\x00x", "d\x00", "\x00d", "%64"} // "%64" is NOT "d": ids are opaque bytes, never URL-decoded
		e.TokIDs = []string{"t", "tt", "x\x00t", "\x00t", "t\x00", "%74"}
	}
	return e
}

func q(s string) string { return strings.ReplaceAll(strings.ReplaceAll(s, "\x00", "\\0"), " ", "_") }

func (e *pnftEnv) addID(id string) {
	for _, d := range e.Denoms {
		if d == id {
			return
		}
	}
	e.Denoms = append(e.Denoms, id)
}

func pnftOps(e *pnftEnv, v pnftVariant) []explore.Op {
	A, B, C := e.A, e.B, e.C
	s := func(a ...*world.Account) []*world.Account { return a }
	var ops []explore.Op
	createDenom := func(id string, by *world.Account, spelled string) explore.Op {
		lbl := by.Name
		if spelled != by.Bech {
			lbl = by.Name + "^"
		}
		return txOp(fmt.Sprintf("CreateDenom(%s,%s)", q(id), lbl), s(by), pnfttypes.NewMsgCreateDenomRequest(id, "SYM", "name-"+id, "desc", "uri", "hash", spelled, "data"))
	}
	mint := func(denom, id string, by *world.Account) explore.Op {
		desc, uri, hash, data := "tdesc", "turi", "thash", "tdata"
		if id == "tt" { // optional fields left empty: in every listing this token follows one that has them set
			desc, uri, hash, data = "", "", "", ""
		}
		return txOp(fmt.Sprintf("Mint(%s,%s,%s)", q(denom), q(id), by.Name), s(by), pnfttypes.NewMsgMintPNFTRequest(denom, id, "tok-"+by.Name, desc, uri, hash, by.Bech, data))
	}
	if v.Gov {
		return pnftGovOps(e, v, createDenom, mint)
	}
	ops = append(ops,
		createDenom("d", A, A.Bech), createDenom("d", B, B.Bech), createDenom("dd", A, A.Bech),
		txOp("UpdateDenom(d,A)", s(A), pnfttypes.NewMsgUpdateDenomRequest("d", "", "renamed-by-A", "", "", "", "", A.Bech)),
		txOp("UpdateDenom(d,B)", s(B), pnfttypes.NewMsgUpdateDenomRequest("d", "SYB", "renamed-by-B", "", "", "", "", B.Bech)),
		txOp("UpdateDenom(d,C)", s(C), pnfttypes.NewMsgUpdateDenomRequest("d", "", "renamed-by-C", "", "", "", "", C.Bech)),
		txOp("DeleteDenom(d,A)", s(A), pnfttypes.NewMsgDeleteDenomRequest("d", A.Bech)),
		txOp("DeleteDenom(d,B)", s(B), pnfttypes.NewMsgDeleteDenomRequest("d", B.Bech)),
		txOp("TransferDenom(d,A->B)", s(A), pnfttypes.NewMsgTransferRequest("d", A.Bech, B.Bech)),
		txOp("TransferDenom(d,B->C)", s(B), pnfttypes.NewMsgTransferRequest("d", B.Bech, C.Bech)),
		txOp("TransferDenom(d,C->A)", s(C), pnfttypes.NewMsgTransferRequest("d", C.Bech, A.Bech)),
		// transfers to oneself: owner and listings stay exactly as they were
		txOp("TransferDenom(d,A->A)", s(A), pnfttypes.NewMsgTransferRequest("d", A.Bech, A.Bech)),
		txOp("TransferPNFT(d,t,A->A)", s(A), pnfttypes.NewMsgTransferPNFTRequest("d", "t", A.Bech, A.Bech)),
		mint("d", "t", A), mint("d", "t", B), mint("d", "tt", A), mint("dd", "t", A), mint("d", "t", C),
		txOp("TransferPNFT(d,t,A->B)", s(A), pnfttypes.NewMsgTransferPNFTRequest("d", "t", A.Bech, B.Bech)),
		txOp("TransferPNFT(d,t,B->C)", s(B), pnfttypes.NewMsgTransferPNFTRequest("d", "t", B.Bech, C.Bech)),
		txOp("TransferPNFT(d,t,C->A)", s(C), pnfttypes.NewMsgTransferPNFTRequest("d", "t", C.Bech, A.Bech)),
		txOp("TransferPNFT(d,t,A->C)", s(A), pnfttypes.NewMsgTransferPNFTRequest("d", "t", A.Bech, C.Bech)),
		txOp("Burn(d,t,A)", s(A), pnfttypes.NewMsgBurnPNFTRequest("d", "t", A.Bech)),
		txOp("Burn(d,t,B)", s(B), pnfttypes.NewMsgBurnPNFTRequest("d", "t", B.Bech)),
		txOp("Burn(d,t,C)", s(C), pnfttypes.NewMsgBurnPNFTRequest("d", "t", C.Bech)),
	)
	// an id that differs from "d" only by trailing whitespace is a different denom (ids are opaque byte strings)
	e.addID("d ")
	ops = append(ops,
		createDenom("d ", B, B.Bech),
		txOp("DeleteDenom(d_,A)", s(A), pnfttypes.NewMsgDeleteDenomRequest("d ", A.Bech)),
		txOp("DeleteDenom(d_,B)", s(B), pnfttypes.NewMsgDeleteDenomRequest("d ", B.Bech)),
		mint("d ", "t", B),
		txOp("TransferDenom(d_,A->C)", s(A), pnfttypes.NewMsgTransferRequest("d ", A.Bech, C.Bech)),
	)
	// a denom id that is another denom's id plus one trailing NUL (the x/nft key delimiter) must be refused: tokens minted
	// in it would be stored inside the other owner's denom
	ops = append(ops, createDenom("d\x00", B, B.Bech), mint("d\x00", "t", B))
	// rollback routes: transactions whose later message fails, and transactions that are only simulated on the node
	failing := pnfttypes.NewMsgBurnPNFTRequest("nosuchdenom", "t", A.Bech)
	failingB := pnfttypes.NewMsgBurnPNFTRequest("nosuchdenom", "t", B.Bech)
	sim := func(name string, signers []*world.Account, msgs ...sdk.Msg) explore.Op {
		o := txOp(name, signers, msgs...)
		o.Aux = "simulate"
		o.Rollback = true
		return o
	}
	rb := func(o explore.Op) explore.Op { o.Rollback = true; return o }
	ops = append(ops,
		rb(txOp("Tx[TransferPNFT(d,t,A->B),failing]", s(A), pnfttypes.NewMsgTransferPNFTRequest("d", "t", A.Bech, B.Bech), failing)),
		rb(txOp("Tx[TransferDenom(d,A->B),failing]", s(A), pnfttypes.NewMsgTransferRequest("d", A.Bech, B.Bech), failing)),
		rb(txOp("Tx[Mint(d,tt,B),failing]", s(B), pnfttypes.NewMsgMintPNFTRequest("d", "tt", "tok-B", "", "", "", B.Bech, ""), failingB)),
		sim("Simulate(TransferPNFT(d,t,A->B))", s(A), pnfttypes.NewMsgTransferPNFTRequest("d", "t", A.Bech, B.Bech)),
		sim("Simulate(TransferDenom(d,A->B))", s(A), pnfttypes.NewMsgTransferRequest("d", A.Bech, B.Bech)),
		sim("Simulate(DeleteDenom(d,A))", s(A), pnfttypes.NewMsgDeleteDenomRequest("d", A.Bech)),
	)
	if v.Auth {
		grant := func(granter, grantee *world.Account, url string) sdk.Msg {
			g, err := authz.NewMsgGrant(granter.Addr, grantee.Addr, authz.NewGenericAuthorization(url), nil)
			if err != nil {
				panic(err)
			}
			return g
		}
		exec := func(grantee *world.Account, msg sdk.Msg) sdk.Msg {
			ex := authz.NewMsgExec(grantee.Addr, []sdk.Msg{msg})
			return &ex
		}
		tdURL := sdk.MsgTypeURL(&pnfttypes.MsgTransferDenomRequest{})
		tpURL := sdk.MsgTypeURL(&pnfttypes.MsgTransferPNFTRequest{})
		ops = append(ops,
			createDenom("d", A, e.AUpper),
			txOp("UpdateDenom(d,A^)", s(A), pnfttypes.NewMsgUpdateDenomRequest("d", "", "renamed-by-A^", "", "", "", "", e.AUpper)),
			txOp("TransferPNFT(d,t,A^->B)", s(A), pnfttypes.NewMsgTransferPNFTRequest("d", "t", e.AUpper, B.Bech)),
			txOp("forged:UpdateDenom(d,updater=A)/signedBy=C", s(C), pnfttypes.NewMsgUpdateDenomRequest("d", "", "evil", "", "", "", "", A.Bech)),
			txOp("forged:DeleteDenom(d,remover=A)/signedBy=C", s(C), pnfttypes.NewMsgDeleteDenomRequest("d", A.Bech)),
			txOp("forged:TransferDenom(d,A->C)/signedBy=C", s(C), pnfttypes.NewMsgTransferRequest("d", A.Bech, C.Bech)),
			txOp("forged:Mint(d,tt,creator=A)/signedBy=C", s(C), pnfttypes.NewMsgMintPNFTRequest("d", "tt", "evil", "", "", "", A.Bech, "")),
			txOp("forged:TransferPNFT(d,t,A->C)/signedBy=C", s(C), pnfttypes.NewMsgTransferPNFTRequest("d", "t", A.Bech, C.Bech)),
			txOp("forged:Burn(d,t,burner=A)/signedBy=C", s(C), pnfttypes.NewMsgBurnPNFTRequest("d", "t", A.Bech)),
			txOp("Grant(A->C,TransferDenom)", s(A), grant(A, C, tdURL)),
			txOp("Grant(A->C,TransferPNFT)", s(A), grant(A, C, tpURL)),
			txOp("Exec(C,TransferDenom(d,A->C))", s(C), exec(C, pnfttypes.NewMsgTransferRequest("d", A.Bech, C.Bech))),
			txOp("Exec(C,TransferPNFT(d,t,A->C))", s(C), exec(C, pnfttypes.NewMsgTransferPNFTRequest("d", "t", A.Bech, C.Bech))),
			txOp("Exec(C,Mint(d,tt,creator=A))", s(C), exec(C, pnfttypes.NewMsgMintPNFTRequest("d", "tt", "evil", "", "", "", A.Bech, ""))),
			txOp("Exec(C,Burn(d,t,burner=B))", s(C), exec(C, pnfttypes.NewMsgBurnPNFTRequest("d", "t", B.Bech))),
			// self-executed messages (no grant needed) are judged like the plain message; a second transfer of the same token
			// later in one transaction is judged against the state the first one left
			txOp("Exec(C,TransferPNFT(d,t,C->B))", s(C), exec(C, pnfttypes.NewMsgTransferPNFTRequest("d", "t", C.Bech, B.Bech))),
			txOp("Exec(C,Burn(d,t,burner=C))", s(C), exec(C, pnfttypes.NewMsgBurnPNFTRequest("d", "t", C.Bech))),
			txOp("Tx[TransferPNFT(d,t,A->B),TransferPNFT(d,t,A->C)]", s(A), pnfttypes.NewMsgTransferPNFTRequest("d", "t", A.Bech, B.Bech), pnfttypes.NewMsgTransferPNFTRequest("d", "t", A.Bech, C.Bech)),
		)
	}
	if v.Wide {
		ops = append(ops,
			createDenom("dd", A, e.AUpper), // owner recorded in upper-case bech32: the same account in every listing
			createDenom("d\x00x", A, A.Bech),
			mint("d", "x\x00t", A),
			mint("d\x00x", "t", A),
			mint("d", "\x00t", A),
			mint("d", "t\x00", A),
			createDenom("d\x00", A, A.Bech),
			createDenom("\x00d", A, A.Bech),
			createDenom("%64", B, B.Bech),
			mint("d", "%74", A),
			mint("%64", "t", B),
			txOp("Burn(d\\0x,t,A)", s(A), pnfttypes.NewMsgBurnPNFTRequest("d\x00x", "t", A.Bech)),
			txOp("TransferPNFT(d\\0x,t,A->B)", s(A), pnfttypes.NewMsgTransferPNFTRequest("d\x00x", "t", A.Bech, B.Bech)),
			txOp("DeleteDenom(dd,A)", s(A), pnfttypes.NewMsgDeleteDenomRequest("dd", A.Bech)),
			mint("dd", "tt", A),
			// free-form data that MENTIONS another account's address: the denom belongs to its owner B, not to the account it mentions
			txOp("CreateDenom(dq,B,data mentions A and C)", s(B), pnfttypes.NewMsgCreateDenomRequest("dq", "SYM", "name-dq", "desc", "uri", "hash", B.Bech,
				`{"audit_contact":"`+A.Bech+`","backup":"`+C.Bech+`"}`)),
		)
	}
	ops = append(ops, ctlOps(v.Ctl...)...)
	return ops
}

// ---------------------------------------------------------------------------------------------
// System
// ---------------------------------------------------------------------------------------------

func pnftSystem(v pnftVariant) *explore.System {
	env := newPnftEnv(v)
	sys := &explore.System{
		ID:     v.ID,
		Stores: []string{"pnft", "authz"},
		Ops:    pnftOps(env, v),
		Clone:  func(m any) any { return m.(*pnftModel).clone() },
		Fresh: func() (*world.World, any) {
			opts := world.Options{Accounts: []*world.Account{env.A, env.B, env.C}}
			m := newPnftModel()
			if v.Gov { // governance with a one-block voting period and a small deposit
				opts.Mutate = func(gs map[string]json.RawMessage, cdc codec.Codec) {
					var g govv1.GenesisState
					cdc.MustUnmarshalJSON(gs["gov"], &g)
					vp := 5 * time.Second
					g.Params.VotingPeriod = &vp
					g.Params.MinDeposit = sdk.NewCoins(sdk.NewInt64Coin("umed", 10))
					gs["gov"] = cdc.MustMarshalJSON(&g)
				}
			}
			if v.Bulk > 0 {
				var pg pnfttypes.GenesisState
				for i := 0; i < v.Bulk; i++ {
					owner := env.A
					if i%2 == 1 {
						owner = env.B
					}
					dn := fmt.Sprintf("den%03d", i)
					pg.Denoms = append(pg.Denoms, &pnfttypes.Denom{Id: dn, Name: "n", Symbol: "S", Owner: owner.Bech})
					pg.Pnfts = append(pg.Pnfts, &pnfttypes.Pnft{DenomId: dn, Id: "t", Name: "tok", Creator: owner.Bech, Owner: env.C.Bech, CreatedAt: world.BaseTime})
					m.Denoms[dn] = &pDenom{ID: dn, Name: "n", Symbol: "S", Owner: owner.Bech}
					m.Tokens[tokKey(dn, "t")] = &pToken{Denom: dn, ID: "t", Name: "tok", Creator: owner.Bech, CreatedAt: world.BaseTime, Owner: string(env.C.Addr)}
				}
				opts.Mutate = func(gs map[string]json.RawMessage, cdc codec.Codec) { gs["pnft"] = cdc.MustMarshalJSON(&pg) }
			}
			return world.New(opts), m
		},
	}
	if !v.Auth {
		sys.Stores = []string{"pnft"}
	}
	if v.Gov {
		sys.Stores = []string{"pnft", "gov"}
	}
	sys.Extra = func(m any) []byte { return m.(*pnftModel).hash() }
	sys.OnStep = func(s *explore.Step) {
		m := s.M.(*pnftModel)
		now := world.BlockTime(s.W.Height)
		vd, why, apply := pnftJudgeTx(m, s.Spec, now, v.StrictDelete)
		got := s.Res.Code == 0
		switch {
		case vd == mustReject && got:
			s.Fail("unauthorized-accepted", "accepted:"+s.Op.Name+":"+why, "reference rejects (%s) but the implementation accepted", why)
			return
		case vd == mustAccept && !got:
			s.Fail("owner-refused", "refused:"+s.Op.Name, "reference accepts but the implementation returned code=%d codespace=%s log=%s", s.Res.Code, s.Res.Codespace, firstLineOf(s.Res.Log))
			return
		}
		if got {
			if apply != nil {
				apply()
			}
			return
		}
		post := s.W.Dump("pnft")
		if !world.EqualKVs(s.Pre["pnft"], post) {
			s.Fail("rejected-changed-state", "rejected-changed-state:"+s.Op.Name, "refused request changed the pnft store: %s", world.DiffKVs(s.Pre["pnft"], post))
		}
	}
	sys.OnState = func(s *explore.State) {
		pnftCheckState(s, s.M.(*pnftModel), env, v)
		if v.Gov {
			// end-of-block processing (other modules' end blockers, e.g. a passed governance proposal) acts with nobody's
			// signature: it must leave denoms, tokens and owners exactly as they are
			before := s.W.Dump("pnft")
			discard := s.W.Fork()
			p := guard(func() { s.W.EndBlock() })
			after := s.W.Dump("pnft")
			discard()
			if p != "" {
				s.Fail("endblock-panic", "endblock-panic", "EndBlock panicked: %s", firstLineOf(p))
			} else if !world.EqualKVs(before, after) {
				s.Fail("unsigned-change", "unsigned-change:endblock", "end-of-block processing changed PNFT state without any owner's signature: %s", world.DiffKVs(before, after))
			}
		}
	}
	sys.Outcome = func(s *explore.Step) string {
		cls := strings.SplitN(s.Op.Name, "(", 2)[0]
		if s.Res.Code == 0 {
			return cls + "/accepted"
		}
		return cls + "/rejected"
	}
	return sys
}

func tokEq(g *pnfttypes.Pnft, t *pToken) string {
	switch {
	case g.DenomId != t.Denom:
		return fmt.Sprintf("denom_id %q != %q", g.DenomId, t.Denom)
	case g.Id != t.ID:
		return fmt.Sprintf("id %q != %q", g.Id, t.ID)
	case g.Name != t.Name || g.Description != t.Desc || g.Uri != t.URI || g.UriHash != t.URIHash || g.Data != t.Data:
		return "immutable metadata changed"
	case g.Creator != t.Creator:
		return fmt.Sprintf("creator %s != %s", g.Creator, t.Creator)
	case !g.CreatedAt.Equal(t.CreatedAt):
		return fmt.Sprintf("created_at %v != %v", g.CreatedAt, t.CreatedAt)
	case g.Owner != sdk.AccAddress(t.Owner).String():
		return fmt.Sprintf("owner %s != %s", g.Owner, sdk.AccAddress(t.Owner).String())
	}
	return ""
}

func denomEq(g *pnfttypes.Denom, d *pDenom) string {
	switch {
	case g.Id != d.ID:
		return fmt.Sprintf("id %q != %q", g.Id, d.ID)
	case g.Owner != d.Owner:
		return fmt.Sprintf("owner %s != %s", g.Owner, d.Owner)
	case g.Name != d.Name || g.Symbol != d.Symbol || g.Description != d.Desc || g.Uri != d.URI || g.UriHash != d.URIHash || g.Data != d.Data:
		return fmt.Sprintf("metadata differs: got %+v want %+v", g, d)
	}
	return ""
}

func pnftCheckState(s *explore.State, m *pnftModel, env *pnftEnv, v pnftVariant) {
	ctx := sdk.WrapSDKContext(s.W.Ctx())
	k := s.W.App.PnftKeeper
	// raw store cardinalities: class / nft / owner-index / owner entries
	count := func(p byte) int { return len(s.W.DumpPrefix("pnft", []byte{p})) }
	if n := count(0x01); n != len(m.Denoms) {
		s.Fail("store-count", "store-count:denoms", "store holds %d classes, reference %d denoms", n, len(m.Denoms))
	}
	for _, p := range []byte{0x02, 0x03, 0x04} {
		if n := count(p); n != len(m.Tokens) {
			s.Fail("store-count", fmt.Sprintf("store-count:tokens-%02x", p), "store prefix %02x holds %d entries, reference has %d tokens", p, n, len(m.Tokens))
		}
	}
	// every existing token belongs to an existing denom
	for _, t := range m.Tokens {
		if _, ok := m.Denoms[t.Denom]; !ok {
			s.Fail("orphan-token", "orphan-token", "token (%s,%s) exists but its denom does not", q(t.Denom), q(t.ID))
		}
	}
	// single-item views over the whole identifier alphabet
	for _, d := range env.Denoms {
		res, err := k.Denom(ctx, &pnfttypes.QueryDenomRequest{Id: d})
		md, ok := m.Denoms[d]
		switch {
		case ok && err != nil:
			s.Fail("denom-view", "denom-view:missing", "Denom(%s): %v", q(d), err)
		case !ok && err == nil:
			s.Fail("denom-view", "denom-view:ghost", "Denom(%s) returned %v but the reference has no such denom", q(d), res.Denom)
		case ok:
			if diff := denomEq(res.Denom, md); diff != "" {
				s.Fail("denom-view", "denom-view:diff", "Denom(%s): %s", q(d), diff)
			}
		}
		for _, id := range env.TokIDs {
			res, err := k.PNFT(ctx, &pnfttypes.QueryPNFTRequest{DenomId: d, Id: id})
			mt, ok := m.Tokens[tokKey(d, id)]
			switch {
			case ok && err != nil:
				s.Fail("token-view", "token-view:missing", "PNFT(%s,%s): %v", q(d), q(id), err)
			case !ok && err == nil:
				s.Fail("token-view", fmt.Sprintf("token-view:alias(%s,%s)", q(d), q(id)), "PNFT(%s,%s) returned token (%s,%s) although the reference has no token under that pair", q(d), q(id), q(res.Pnft.DenomId), q(res.Pnft.Id))
			case ok:
				if diff := tokEq(res.Pnft, mt); diff != "" {
					s.Fail("token-view", "token-view:diff", "PNFT(%s,%s): %s", q(d), q(id), diff)
				}
			}
		}
	}
	if !v.Queries {
		return
	}
	accounts := []*world.Account{env.A, env.B, env.C}
	for _, d := range env.Denoms {
		want := m.tokensOf(d)
		res, err := k.PNFTs(ctx, &pnfttypes.QueryPNFTsRequest{DenomId: d})
		if err != nil {
			s.Fail("listing", "listing:pnfts-err", "PNFTs(%s): %v", q(d), err)
		} else {
			cmpTokens(s, fmt.Sprintf("PNFTs(%s)", q(d)), "pnfts", res.Pnfts, want)
		}
		for _, a := range accounts {
			var wantO []*pToken
			for _, t := range want {
				if t.Owner == string(a.Addr) {
					wantO = append(wantO, t)
				}
			}
			res, err := k.PNFTsByDenomOwner(ctx, &pnfttypes.QueryPNFTsByDenomOwnerRequest{DenomId: d, Owner: a.Bech})
			if err != nil {
				s.Fail("listing", "listing:byowner-err", "PNFTsByDenomOwner(%s,%s): %v", q(d), a.Name, err)
			} else {
				cmpTokens(s, fmt.Sprintf("PNFTsByDenomOwner(%s,%s)", q(d), a.Name), "byowner", res.Pnfts, wantO)
			}
		}
	}
	// denoms listing, paged
	var wantD []string
	for id := range m.Denoms {
		wantD = append(wantD, id)
	}
	sort.Strings(wantD)
	pageMatrix(s, "denoms", "all", wantD, func(p *query.PageRequest) ([]string, *query.PageResponse, error) {
		r, err := k.Denoms(ctx, &pnfttypes.QueryDenomsRequest{Pagination: p})
		if err != nil {
			return nil, nil, err
		}
		var ids []string
		for _, d := range r.Denoms {
			ids = append(ids, d.Id)
			if md, ok := m.Denoms[d.Id]; ok {
				if diff := denomEq(d, md); diff != "" {
					s.Fail("listing", "listing:denoms-diff", "Denoms item %s: %s", q(d.Id), diff)
				}
			}
		}
		return ids, r.Pagination, nil
	})
	for _, a := range accounts {
		var want []string
		for id, d := range m.Denoms {
			if sameAddr(d.Owner, a.Bech) {
				want = append(want, id)
			}
		}
		sort.Strings(want)
		r, err := k.DenomsByOwner(ctx, &pnfttypes.QueryDenomsByOwnerRequest{Owner: a.Bech})
		if err != nil {
			s.Fail("listing", "listing:denomsbyowner-err", "DenomsByOwner(%s): %v", a.Name, err)
			continue
		}
		var got []string
		for _, d := range r.Denoms {
			got = append(got, d.Id)
		}
		sort.Strings(got)
		if strings.Join(got, "|") != strings.Join(want, "|") {
			s.Fail("listing", "listing:denomsbyowner", "DenomsByOwner(%s) returned %q, the denoms owned by that account are %q", a.Name, got, want)
		}
	}
	// nft total supply per denom == listed tokens
	for _, d := range env.Denoms {
		res, err := s.W.App.PnftKeeper.PNFTs(ctx, &pnfttypes.QueryPNFTsRequest{DenomId: d})
		if err == nil && len(res.Pnfts) != len(m.tokensOf(d)) {
			s.Fail("listing", "listing:count", "PNFTs(%s) lists %d tokens, reference %d", q(d), len(res.Pnfts), len(m.tokensOf(d)))
		}
	}
}

func cmpTokens(s *explore.State, what, kind string, got []*pnfttypes.Pnft, want []*pToken) {
	if len(got) != len(want) {
		var ids []string
		for _, g := range got {
			ids = append(ids, q(g.DenomId)+"/"+q(g.Id))
		}
		s.Fail("listing", "listing:"+kind+"-set", "%s returned %d items %v, reference has %d", what, len(got), ids, len(want))
		return
	}
	gs := append([]*pnfttypes.Pnft{}, got...)
	sort.Slice(gs, func(i, j int) bool { return gs[i].Id < gs[j].Id })
	for i := range gs {
		if diff := tokEq(gs[i], want[i]); diff != "" {
			s.Fail("listing", "listing:"+kind+"-diff", "%s item %d: %s", what, i, diff)
		}
	}
}

// ---------------------------------------------------------------------------------------------
// Entry points
// ---------------------------------------------------------------------------------------------

func C06(t Tier) int {
	run := report.NewRun("C06", t.Name, "model_checking", "E1+E2")
	sys := pnftSystem(pnftVariant{ID: "C06", Auth: true, StrictDelete: true, Ctl: []string{"NB", "XI"}})
	dl := deadline(t, 120*time.Second, 15*time.Minute)
	bounds := []explore.Bounds{{Depth: 4, V: 1, Deadline: dl}, {Depth: 5, V: 1, Deadline: dl}}
	if t.Thorough {
		bounds = []explore.Bounds{{Depth: 5, V: 1, Deadline: dl}, {Depth: 5, V: 2, Deadline: dl}, {Depth: 6, V: 2, Deadline: dl}, {Depth: 7, V: 2, Deadline: dl}}
	}
	RunGraph(run, sys, bounds, 8)
	// second system: the governance route (another module's end blocker executing PNFT messages with nobody's signature)
	govSys := pnftSystem(pnftVariant{ID: "C06/gov", Gov: true, StrictDelete: true, Ctl: []string{"NB"}})
	gdl := deadline(t, 60*time.Second, 5*time.Minute)
	gb := []explore.Bounds{{Depth: 4, V: 1, Deadline: gdl}, {Depth: 5, V: 1, Deadline: gdl}}
	if t.Thorough {
		gb = []explore.Bounds{{Depth: 5, V: 1, Deadline: gdl}, {Depth: 5, V: 2, Deadline: gdl}, {Depth: 6, V: 2, Deadline: gdl}}
	}
	RunGraph(run, govSys, gb, 4)
	run.Assumptions = []string{
		"C06/gov: governance with a 5 s (one block) voting period, 10umed deposit, one validator whose delegator A casts the only vote; in every distinct state the real EndBlock runs on a fork and must leave the pnft store byte-identical",
		"accounts A,B,C are plain key accounts; A^ is A's address spelled in upper-case bech32 (same signer, different string)",
		"mixed-case spellings: only the safety direction is asserted (an owner locked out by string comparison is a liveness quirk, not a violation)",
		"delegation = x/authz GenericAuthorization",
	}
	return run.Finish()
}

func C12(t Tier) int {
	run := report.NewRun("C12", t.Name, "model_checking", "E1+E2")
	sys := pnftSystem(pnftVariant{ID: "C12", Wide: true, Queries: true, StrictDelete: true, Ctl: []string{"NB", "XI"}})
	dl := deadline(t, 120*time.Second, 15*time.Minute)
	bounds := []explore.Bounds{{Depth: 4, V: 1, Deadline: dl}, {Depth: 5, V: 1, Deadline: dl}}
	if t.Thorough {
		bounds = []explore.Bounds{{Depth: 5, V: 1, Deadline: dl}, {Depth: 5, V: 2, Deadline: dl}, {Depth: 6, V: 2, Deadline: dl}, {Depth: 7, V: 2, Deadline: dl}}
	}
	RunGraph(run, sys, bounds, 8)
	// second initial state: 130 denoms (more than one default page of 100) owned alternately by A and B, one token each
	bulk := pnftSystem(pnftVariant{ID: "C12/bulk", Bulk: 130, Queries: true, StrictDelete: true, Ctl: []string{"XI"}})
	RunGraph(run, bulk, []explore.Bounds{{Depth: 2, V: 1, Deadline: deadline(t, 45*time.Second, 4*time.Minute)}}, 4)
	run.Assumptions = []string{
		"a second run starts from a genesis with 130 denoms (owners A/B alternating, one token each) and explores depth 2 + one export/import; large listings use a sparse pagination matrix (offsets at both ends and around 100)",
		"identifier alphabet: denoms {d, dd, d\\0x}, tokens {t, tt, x\\0t} (prefixes of one another and the x/nft key delimiter)",
		"query matrix per distinct state: Denom, PNFT over alphabet x alphabet, PNFTs, PNFTsByDenomOwner x 3 accounts, Denoms under the full pagination matrix, DenomsByOwner x 3 accounts",
	}
	return run.Finish()
}

// pnftGovOps: the alphabet of the C06/gov system - a reduced set of owner actions on denom d / token t plus the
// governance route: proposals carrying PNFT messages whose actor is the gov module account (never an owner), a vote with
// the chain's whole voting power, and block boundaries (the gov end blocker executes a passed proposal).
func pnftGovOps(e *pnftEnv, v pnftVariant, createDenom func(string, *world.Account, string) explore.Op, mint func(string, string, *world.Account) explore.Op) []explore.Op {
	A, B, C := e.A, e.B, e.C
	s := func(a ...*world.Account) []*world.Account { return a }
	gov := authtypes.NewModuleAddress(govtypes.ModuleName).String()
	dep, _ := sdk.ParseCoinsNormalized("10umed")
	prop, err := govv1.NewMsgSubmitProposal([]sdk.Msg{
		pnfttypes.NewMsgTransferRequest("d", gov, C.Bech),
	}, dep, A.Bech, "", "hand denom d to C", "governance acting on a denom it does not own")
	if err != nil {
		panic(err)
	}
	prop2, err := govv1.NewMsgSubmitProposal([]sdk.Msg{
		pnfttypes.NewMsgUpdateDenomRequest("d", "", "renamed-by-gov", "", "", "", "", gov),
		pnfttypes.NewMsgMintPNFTRequest("d", "tt", "minted-by-gov", "", "", "", gov, ""),
	}, dep, A.Bech, "", "update denom d and mint in it", "governance acting on a denom it does not own")
	if err != nil {
		panic(err)
	}
	prop3, err := govv1.NewMsgSubmitProposal([]sdk.Msg{
		pnfttypes.NewMsgTransferPNFTRequest("d", "t", gov, C.Bech),
		pnfttypes.NewMsgBurnPNFTRequest("d", "t", gov),
		pnfttypes.NewMsgDeleteDenomRequest("d", gov),
	}, dep, A.Bech, "", "take token t", "governance acting on a token it does not own")
	if err != nil {
		panic(err)
	}
	ops := []explore.Op{
		createDenom("d", A, A.Bech),
		mint("d", "t", A),
		txOp("TransferDenom(d,A->B)", s(A), pnfttypes.NewMsgTransferRequest("d", A.Bech, B.Bech)),
		txOp("TransferPNFT(d,t,A->B)", s(A), pnfttypes.NewMsgTransferPNFTRequest("d", "t", A.Bech, B.Bech)),
		txOp("SubmitProposal(TransferDenom(d,gov->C))", s(A), prop),
		txOp("SubmitProposal(UpdateDenom(d,gov)+Mint(d,tt,gov))", s(A), prop2),
		txOp("SubmitProposal(TransferPNFT(d,t,gov->C)+Burn+DeleteDenom)", s(A), prop3),
		txOp("Vote(A,proposal1,yes)", s(A), govv1.NewMsgVote(A.Addr, 1, govv1.OptionYes, "")),
	}
	return append(ops, ctlOps(v.Ctl...)...)
}
