package checks

import (
	"bytes"
	"encoding/json"
	"fmt"
	"github.com/cosmos/cosmos-sdk/codec"
	"strings"
	"time"

	sdk "github.com/cosmos/cosmos-sdk/types"
	"github.com/cosmos/cosmos-sdk/types/module"
	aoltypes "github.com/medibloc/panacea-core/v2/x/aol/types"
	didtypes "github.com/medibloc/panacea-core/v2/x/did/types"
	pnfttypes "github.com/medibloc/panacea-core/v2/x/pnft/types"

	"github.com/medibloc/panacea-core/v2/app"

	"verif/engine/explore"
	"verif/engine/report"
	"verif/engine/world"
)

var c08Sections = []string{"aol", "did", "pnft", "burn"}

// pnftAnswers renders every PNFT query answer of interest as a canonical string list.
func pnftAnswers(w *world.World, accounts []*world.Account) []string {
	ctx := sdk.WrapSDKContext(w.Ctx())
	k := w.App.PnftKeeper
	var out []string
	dres, err := k.Denoms(ctx, &pnfttypes.QueryDenomsRequest{})
	if err != nil {
		return []string{"Denoms error: " + err.Error()}
	}
	for _, d := range dres.Denoms {
		out = append(out, "denom "+d.String())
		one, err := k.Denom(ctx, &pnfttypes.QueryDenomRequest{Id: d.Id})
		out = append(out, fmt.Sprintf("Denom(%s) %v %v", d.Id, one, err))
		pres, err := k.PNFTs(ctx, &pnfttypes.QueryPNFTsRequest{DenomId: d.Id})
		if err != nil {
			out = append(out, "PNFTs error "+err.Error())
			continue
		}
		for _, p := range pres.Pnfts {
			out = append(out, "pnft "+p.String())
			single, err := k.PNFT(ctx, &pnfttypes.QueryPNFTRequest{DenomId: d.Id, Id: p.Id})
			out = append(out, fmt.Sprintf("PNFT(%s,%s) %v %v", d.Id, p.Id, single, err))
		}
		for _, a := range accounts {
			r, err := k.PNFTsByDenomOwner(ctx, &pnfttypes.QueryPNFTsByDenomOwnerRequest{DenomId: d.Id, Owner: a.Bech})
			out = append(out, fmt.Sprintf("PNFTsByDenomOwner(%s,%s) %v %v", d.Id, a.Name, r, err))
		}
	}
	for _, a := range accounts {
		r, err := k.DenomsByOwner(ctx, &pnfttypes.QueryDenomsByOwnerRequest{Owner: a.Bech})
		out = append(out, fmt.Sprintf("DenomsByOwner(%s) %v %v", a.Name, r, err))
	}
	// tokens of the id alphabet whose denom may be gone
	for _, d := range []string{"d", "dd"} {
		for _, t := range []string{"t", "tt"} {
			single, err := k.PNFT(ctx, &pnfttypes.QueryPNFTRequest{DenomId: d, Id: t})
			out = append(out, fmt.Sprintf("PNFT(%s,%s) %v %v", d, t, single, err))
		}
	}
	return out
}

func sections(appState []byte) (map[string]json.RawMessage, error) {
	var gs map[string]json.RawMessage
	if err := json.Unmarshal(appState, &gs); err != nil {
		return nil, err
	}
	return gs, nil
}

// exportImportCheck runs the whole C08 oracle on a world (which is committed by the export).
func exportImportCheck(w *world.World, accounts []*world.Account, fail func(kind, sig, format string, a ...any)) {
	pre := map[string][]world.KV{"aol": w.Dump("aol"), "did": w.Dump("did")}
	// pnft: classes, tokens, owner index and owners are compared raw as well (the class supply counter 0x05 is left out: a
	// deleted denom leaves a zero counter behind that an import legitimately does not recreate); the query answers below
	// are paginated by the module itself and would hide anything beyond the first page
	pnftRaw := func(x *world.World) []world.KV {
		var out []world.KV
		for _, p := range []byte{0x01, 0x02, 0x03, 0x04} {
			out = append(out, x.DumpPrefix("pnft", []byte{p})...)
		}
		return out
	}
	prePnft := pnftRaw(w)
	preP := pnftAnswers(w, accounts)
	st1, vals, h, err := w.Export()
	if err != nil {
		fail("export-error", "export-error", "export failed: %v", err)
		return
	}
	st1b, _, _, err := w.Export()
	if err != nil || !bytes.Equal(st1, st1b) {
		fail("export-unstable", "export-unstable", "exporting the same state twice gave different bytes (err=%v)", err)
	}
	gs1, err := sections(st1)
	if err != nil {
		fail("export-error", "export-error:json", "exported app state is not JSON: %v", err)
		return
	}
	for _, name := range c08Sections {
		mbAny, ok := app.ModuleBasics[name]
		if !ok {
			continue
		}
		mb, ok := mbAny.(module.HasGenesisBasics)
		if !ok {
			continue
		}
		if p := guard(func() { err = mb.ValidateGenesis(w.App.AppCodec(), w.TxConfig(), gs1[name]) }); p != "" {
			fail("validate-panic", "validate-panic:"+name, "ValidateGenesis(%s) panicked on exported state: %s", name, firstLineOf(p))
		} else if err != nil {
			fail("validate-failed", "validate-failed:"+name, "exported %s genesis does not pass its own validation: %v", name, err)
		}
	}
	w2, err := world.ImportFrom(w.Opts, st1, vals, h)
	if err != nil {
		fail("import-failed", "import-failed:"+firstLineOf(strings.SplitN(err.Error(), "panacea1", 2)[0]), "initialising a fresh chain from the export failed: %v", err)
		return
	}
	for _, s := range []string{"aol", "did"} {
		if post := w2.Dump(s); !world.EqualKVs(pre[s], post) {
			fail("state-differs", "state-differs:"+s, "%s store differs after export/import: %s", s, world.DiffKVs(pre[s], post))
		}
	}
	if post := pnftRaw(w2); !world.EqualKVs(prePnft, post) {
		fail("state-differs", "state-differs:pnft-store", "pnft classes/tokens/owners differ after export/import (%d entries before, %d after): %s", len(prePnft), len(post), world.DiffKVs(prePnft, post))
	}
	postP := pnftAnswers(w2, accounts)
	if strings.Join(preP, "\n") != strings.Join(postP, "\n") {
		d := ""
		for i := 0; i < len(preP) || i < len(postP); i++ {
			a, b := "", ""
			if i < len(preP) {
				a = preP[i]
			}
			if i < len(postP) {
				b = postP[i]
			}
			if a != b {
				d = fmt.Sprintf("before: %s | after: %s", a, b)
				break
			}
		}
		fail("state-differs", "state-differs:pnft", "PNFT query answers differ after export/import: %s", d)
	}
	st2, _, _, err := w2.Export()
	if err != nil {
		fail("export-error", "export-error:second", "export of the imported chain failed: %v", err)
		return
	}
	gs2, _ := sections(st2)
	for _, name := range c08Sections {
		if !bytes.Equal(gs1[name], gs2[name]) {
			fail("reexport-differs", "reexport-differs:"+name, "the imported chain's own export of %s differs from the original export", name)
		}
	}
}

func c08System(base string) *explore.System {
	e := newDomEnv()
	k := e.DidKey
	A, B, W, F := e.A, e.B, e.W, e.F
	s := func(a ...*world.Account) []*world.Account { return a }
	d1, d2 := k.DIDs[0], k.DIDs[1]
	didOp := func(name string, mk func(m any) sdk.Msg) explore.Op {
		return explore.Op{Name: name, Tx: func(w *world.World, m any) *world.TxSpec {
			return &world.TxSpec{Msgs: []sdk.Msg{mk(m)}, Signers: s(A), Fee: aolFee}
		}}
	}
	seqOf := func(w *world.World, did string) uint64 {
		return w.App.DidKeeper.GetDIDDocument(w.Ctx(), did).Sequence
	}
	var ops []explore.Op
	ops = append(ops,
		txOp("CreateTopic(A,ab)", s(A), aoltypes.NewMsgCreateTopic("ab", "second", A.Bech)),
		txOp("CreateTopic(B,a)", s(B), aoltypes.NewMsgCreateTopic("a", "", B.Bech)),
		txOp("AddWriter(A,a,A)", s(A), aoltypes.NewMsgAddWriter("a", "", "self", A.Bech, A.Bech)),
		txOp("AddWriter(A,a,W)", s(A), aoltypes.NewMsgAddWriter("a", "w2", "", W.Bech, A.Bech)),
		txOp("DeleteWriter(A,a,W)", s(A), aoltypes.NewMsgDeleteWriter("a", W.Bech, A.Bech)),
		txOp("AddRecord(A,a,by=W)", s(W), aoltypes.NewMsgAddRecordRequest("a", []byte("k2"), []byte("v2"), W.Bech, A.Bech, "")),
		txOp("AddRecord(A,a,by=W,empty)", s(W), aoltypes.NewMsgAddRecordRequest("a", nil, nil, W.Bech, A.Bech, "")),
		txOp("AddRecord(A,a,by=W,feepayer=F)", s(F, W), aoltypes.NewMsgAddRecordRequest("a", []byte("/"), []byte("{\"json\":\"/\"}"), W.Bech, A.Bech, F.Bech)),
	)
	ops = append(ops,
		explore.Op{Name: "CreateDID(d2,D5)", Tx: func(w *world.World, m any) *world.TxSpec {
			doc := k.doc("D5", d2)
			return &world.TxSpec{Msgs: []sdk.Msg{&didtypes.MsgCreateDIDRequest{Did: d2, Document: doc, VerificationMethodId: k.vmID(d2, 1), Signature: k.sign(doc, 0, 1), FromAddress: A.Bech}}, Signers: s(A), Fee: aolFee}
		}},
		explore.Op{Name: "UpdateDID(d1,D3)", Tx: func(w *world.World, m any) *world.TxSpec {
			doc := k.doc("D3", d1)
			return &world.TxSpec{Msgs: []sdk.Msg{&didtypes.MsgUpdateDIDRequest{Did: d1, Document: doc, VerificationMethodId: k.vmID(d1, 1), Signature: k.sign(doc, seqOf(w, d1), 1), FromAddress: A.Bech}}, Signers: s(A), Fee: aolFee}
		}},
		explore.Op{Name: "UpdateDID(d1,D5,by k2)", Tx: func(w *world.World, m any) *world.TxSpec {
			doc := k.doc("D5", d1)
			return &world.TxSpec{Msgs: []sdk.Msg{&didtypes.MsgUpdateDIDRequest{Did: d1, Document: doc, VerificationMethodId: k.vmID(d1, 2), Signature: k.sign(doc, seqOf(w, d1), 2), FromAddress: A.Bech}}, Signers: s(A), Fee: aolFee}
		}},
		explore.Op{Name: "UpdateDID(d1,D1+controller=[\"\"])", Tx: func(w *world.World, m any) *world.TxSpec {
			doc := k.doc("D1", d1)
			doc.Controller = &didtypes.JSONStringOrStrings{""} // a list holding one empty string is not the same value as an empty list
			return &world.TxSpec{Msgs: []sdk.Msg{&didtypes.MsgUpdateDIDRequest{Did: d1, Document: doc, VerificationMethodId: k.vmID(d1, 1), Signature: k.sign(doc, seqOf(w, d1), 1), FromAddress: A.Bech}}, Signers: s(A), Fee: aolFee}
		}},
		explore.Op{Name: "UpdateDID(d1,D1+dangling-assertion-reference)", Tx: func(w *world.World, m any) *world.TxSpec {
			doc := k.doc("D1", d1) // a document the chain must refuse: were it stored, the exported genesis would not validate
			doc.AssertionMethods = []didtypes.VerificationRelationship{didtypes.NewVerificationRelationship(k.vmID(d1, 2))}
			return &world.TxSpec{Msgs: []sdk.Msg{&didtypes.MsgUpdateDIDRequest{Did: d1, Document: doc, VerificationMethodId: k.vmID(d1, 1), Signature: k.sign(doc, seqOf(w, d1), 1), FromAddress: A.Bech}}, Signers: s(A), Fee: aolFee}
		}},
		explore.Op{Name: "DeactivateDID(d1,k1)", Tx: func(w *world.World, m any) *world.TxSpec {
			return &world.TxSpec{Msgs: []sdk.Msg{&didtypes.MsgDeactivateDIDRequest{Did: d1, VerificationMethodId: k.vmID(d1, 1), Signature: k.sign(&didtypes.DIDDocument{Id: d1}, seqOf(w, d1), 1), FromAddress: A.Bech}}, Signers: s(A), Fee: aolFee}
		}},
		explore.Op{Name: "DeactivateDID(d1,k2)", Tx: func(w *world.World, m any) *world.TxSpec {
			return &world.TxSpec{Msgs: []sdk.Msg{&didtypes.MsgDeactivateDIDRequest{Did: d1, VerificationMethodId: k.vmID(d1, 2), Signature: k.sign(&didtypes.DIDDocument{Id: d1}, seqOf(w, d1), 2), FromAddress: A.Bech}}, Signers: s(A), Fee: aolFee}
		}},
	)
	_ = didOp
	ops = append(ops,
		txOp("CreateDenom(dd,B)", s(B), pnfttypes.NewMsgCreateDenomRequest("dd", "S2", "second", "desc", "uri", "hash", B.Bech, "data")),
		txOp("UpdateDenom(d,A)", s(A), pnfttypes.NewMsgUpdateDenomRequest("d", "", "renamed", "new desc", "", "", "{\"k\":1}", A.Bech)),
		txOp("Mint(d,tt,A)", s(A), pnfttypes.NewMsgMintPNFTRequest("d", "tt", "tok2", "d", "u", "h", A.Bech, "x")),
		// a token with every optional field set whose id sorts BEFORE the populated base's token t (all optional fields empty)
		txOp("Mint(d,s,A)", s(A), pnfttypes.NewMsgMintPNFTRequest("d", "s", "tok0", "blood test of 2024-05", "ipfs://s", "hs", A.Bech, "{\"kind\":\"lab\"}")),
		txOp("Mint(d,tt,B)", s(B), pnfttypes.NewMsgMintPNFTRequest("d", "tt", "tok2b", "", "", "", B.Bech, "")),
		txOp("TransferPNFT(d,t,A->B)", s(A), pnfttypes.NewMsgTransferPNFTRequest("d", "t", A.Bech, B.Bech)),
		txOp("TransferPNFT(d,t,B->W)", s(B), pnfttypes.NewMsgTransferPNFTRequest("d", "t", B.Bech, W.Bech)),
		txOp("TransferDenom(d,A->B)", s(A), pnfttypes.NewMsgTransferRequest("d", A.Bech, B.Bech)),
		txOp("Burn(d,t,A)", s(A), pnfttypes.NewMsgBurnPNFTRequest("d", "t", A.Bech)),
		txOp("DeleteDenom(d,A)", s(A), pnfttypes.NewMsgDeleteDenomRequest("d", A.Bech)),
		txOp("CreateDenom(d,B)", s(B), pnfttypes.NewMsgCreateDenomRequest("d", "S3", "recreated", "", "", "", B.Bech, "")),
	)
	// identifiers carrying the separators of the genesis string keys and other awkward characters: whatever the chain
	// accepts must survive the round trip (whether it should be accepted at all is C16's business)
	ops = append(ops,
		txOp("CreateTopic(A,a/b)", s(A), aoltypes.NewMsgCreateTopic("a/b", "slash", A.Bech)),
		txOp("CreateTopic(A,a.b-c_D)", s(A), aoltypes.NewMsgCreateTopic("a.b-c_D", "", A.Bech)),
		txOp("CreateDenom(d/x:y,A)", s(A), pnfttypes.NewMsgCreateDenomRequest("d/x:y", "S4", "", "", "", "", A.Bech, "")),
		// required text fields left empty: if the chain stores such a denom, its own genesis validation must accept it again
		txOp("Mint(dd,t,B)", s(B), pnfttypes.NewMsgMintPNFTRequest("dd", "t", "same token id as (d,t)", "", "", "", B.Bech, "")),
		txOp("CreateDenom(nosym,A,symbol=empty)", s(A), pnfttypes.NewMsgCreateDenomRequest("nosym", "", "has a name", "", "", "", A.Bech, "")),
		txOp("CreateDenom(noname,A,name=empty)", s(A), pnfttypes.NewMsgCreateDenomRequest("noname", "SYM", "", "", "", "", A.Bech, "")),
		txOp("Mint(d,t/1,A)", s(A), pnfttypes.NewMsgMintPNFTRequest("d", "t/1", "", "", "", "", A.Bech, "")),
	)
	ops = append(ops, ctlOps("NB")...)
	accounts := []*world.Account{A, B, W, F}
	sys := &explore.System{
		ID:     "C08/" + base,
		Stores: customStores,
		Ops:    ops,
		Clone:  func(m any) any { return m },
		Fresh: func() (*world.World, any) {
			switch base {
			case "empty":
				return world.New(world.Options{Accounts: accounts}), nil
			case "bulk":
				return world.New(world.Options{Accounts: accounts, Mutate: c08BulkGenesis(e)}), nil
			}
			return populated(e), nil
		},
	}
	sys.OnStep = func(st *explore.Step) {}
	sys.Outcome = func(st *explore.Step) string {
		cls := strings.SplitN(st.Op.Name, "(", 2)[0]
		if st.Res.Code == 0 {
			return cls + "/accepted"
		}
		return cls + "/rejected"
	}
	sys.OnState = func(st *explore.State) {
		// export needs a committed state: rebuild this state on a private world by sequential replay
		idx, err := explore.PathIndices(sys, st.Path())
		if err != nil {
			panic(err)
		}
		sysNoState := *sys
		sysNoState.OnState = nil
		w2, _, _, err := explore.Replay(&sysNoState, idx, false)
		if err != nil {
			panic(err)
		}
		// The sequentially rebuilt world is the authority (it is what a real node would hold after this history). If it
		// differs from the explored fork state the tree keeps state outside the store; that is other properties'
		// business (C09/C10) - here the state actually reachable is judged.
		exportImportCheck(w2, accounts, st.Fail)
	}
	return sys
}

// c08BulkGenesis: more than one default page (100) of everything: 120 DIDs (some tombstoned), 120 topics under one owner
// with a writer and a record each, 120 denoms of alternating owners with one token each.
func c08BulkGenesis(e *domEnv) func(gs map[string]json.RawMessage, cdc codec.Codec) {
	return func(gs map[string]json.RawMessage, cdc codec.Codec) {
		docs := bulkDIDs(e.DidKey, 120)
		i := 0
		for _, k := range sortedKeys(docs) {
			if i%17 == 16 || i == len(docs)-1 {
				docs[k] = &didtypes.DIDDocumentWithSeq{Document: &didtypes.DIDDocument{}, Sequence: 2} // tombstone
			}
			i++
		}
		gs["did"] = cdc.MustMarshalJSON(&didtypes.GenesisState{Documents: docs})
		ag := aoltypes.GenesisState{Owners: map[string]*aoltypes.Owner{e.A.Bech: {TotalTopics: 120}}, Topics: map[string]*aoltypes.Topic{},
			Writers: map[string]*aoltypes.Writer{}, Records: map[string]*aoltypes.Record{}}
		var pg pnfttypes.GenesisState
		for i := 0; i < 120; i++ {
			tn := fmt.Sprintf("bulk-%03d", i)
			ag.Topics[e.A.Bech+"/"+tn] = &aoltypes.Topic{Description: tn, TotalWriters: 1, TotalRecords: 1}
			ag.Writers[e.A.Bech+"/"+tn+"/"+e.W.Bech] = &aoltypes.Writer{Moniker: "w", NanoTimestamp: 11}
			ag.Records[e.A.Bech+"/"+tn+"/0"] = &aoltypes.Record{Key: []byte(tn), Value: []byte("v"), NanoTimestamp: 12, WriterAddress: e.W.Bech}
			owner := e.A
			if i%2 == 1 {
				owner = e.B
			}
			dn := fmt.Sprintf("den%03d", i)
			pg.Denoms = append(pg.Denoms, &pnfttypes.Denom{Id: dn, Name: "n", Symbol: "S", Owner: owner.Bech})
			created := world.BaseTime
			switch i {
			case 3: // creation times that do not fit a 64-bit nanosecond count (a chain whose clock runs far ahead, a migrated record)
				created = time.Date(2300, 1, 2, 3, 4, 5, 600700800, time.UTC)
			case 4:
				created = time.Date(1600, 6, 7, 8, 9, 10, 11, time.UTC)
			case 5:
				created = time.Date(9999, 12, 31, 23, 59, 59, 999999999, time.UTC)
			}
			pg.Pnfts = append(pg.Pnfts, &pnfttypes.Pnft{DenomId: dn, Id: "t", Name: "tok", Creator: owner.Bech, Owner: e.W.Bech, CreatedAt: created})
		}
		// one topic with a two-digit number of records (offsets 0..11 in the string keys of the exported genesis)
		ag.Owners[e.A.Bech].TotalTopics++
		ag.Topics[e.A.Bech+"/many"] = &aoltypes.Topic{Description: "twelve records", TotalWriters: 1, TotalRecords: 12}
		ag.Writers[e.A.Bech+"/many/"+e.W.Bech] = &aoltypes.Writer{Moniker: "w", NanoTimestamp: 11}
		for i := 0; i < 12; i++ {
			ag.Records[fmt.Sprintf("%s/many/%d", e.A.Bech, i)] = &aoltypes.Record{Key: []byte(fmt.Sprintf("k%d", i)), Value: []byte("v"), NanoTimestamp: int64(20 + i), WriterAddress: e.W.Bech}
		}
		gs["aol"] = cdc.MustMarshalJSON(&ag)
		gs["pnft"] = cdc.MustMarshalJSON(&pg)
	}
}

func C08(t Tier) int {
	run := report.NewRun("C08", t.Name, "model_checking", "E1+E2")
	depth := map[string]int{"empty": 3, "populated": 3}
	if t.Thorough {
		depth = map[string]int{"empty": 4, "populated": 4}
	}
	depth["bulk"] = 1
	for _, base := range []string{"empty", "populated", "bulk"} {
		sys := c08System(base)
		RunGraph(run, sys, []explore.Bounds{{Depth: depth[base], V: 1, Deadline: deadline(t, 90*time.Second, 8*time.Minute)}}, 4)
	}
	// import fidelity: what the chain holds after starting from the bulk genesis is what that genesis file says (an import that
	// rewrites values would otherwise export and re-import its own rewriting consistently)
	{
		e := newDomEnv()
		w := world.New(world.Options{Accounts: []*world.Account{e.A, e.B, e.W, e.F}, Mutate: c08BulkGenesis(e)})
		gs := map[string]json.RawMessage{}
		c08BulkGenesis(e)(gs, w.App.AppCodec())
		var pg pnfttypes.GenesisState
		w.App.AppCodec().MustUnmarshalJSON(gs["pnft"], &pg)
		checked := 0
		for _, want := range pg.Pnfts {
			got, err := w.App.PnftKeeper.GetPNFT(w.Ctx(), want.DenomId, want.Id)
			checked++
			if err != nil || got == nil {
				run.Add(report.Viol{Kind: "import-differs", Sig: "import-differs:pnft-missing", Msg: fmt.Sprintf("token %s/%s of the genesis file is not on the chain: %v", want.DenomId, want.Id, err), Replay: map[string]any{"check": "C08", "case": "bulk genesis fidelity"}})
				break
			}
			if !got.CreatedAt.Equal(want.CreatedAt) || got.Owner != want.Owner || got.Creator != want.Creator || got.Name != want.Name || got.Description != want.Description || got.Uri != want.Uri || got.UriHash != want.UriHash || got.Data != want.Data {
				run.Add(report.Viol{Kind: "import-differs", Sig: "import-differs:pnft", Msg: fmt.Sprintf("token %s/%s: the genesis file says %v, the chain holds %v", want.DenomId, want.Id, want, got), Replay: map[string]any{"check": "C08", "case": "bulk genesis fidelity"}})
				break
			}
		}
		for _, want := range pg.Denoms {
			got, err := w.App.PnftKeeper.GetDenom(w.Ctx(), want.Id)
			checked++
			if err != nil || got == nil || got.Owner != want.Owner || got.Name != want.Name || got.Symbol != want.Symbol || got.Data != want.Data {
				run.Add(report.Viol{Kind: "import-differs", Sig: "import-differs:denom", Msg: fmt.Sprintf("denom %s: the genesis file says %v, the chain holds %v (%v)", want.Id, want, got, err), Replay: map[string]any{"check": "C08", "case": "bulk genesis fidelity"}})
				break
			}
		}
		run.Coverage["bulk_genesis_entries_compared_with_chain"] = checked
	}
	run.Assumptions = []string{
		"alphabet: the valid, state-shaping subset of the AOL, DID and PNFT alphabets (transferred token, handed-over denom, deleted and re-created denom, deactivated DID, rich DID document, empty record key/value, '/' and JSON in record bytes, writer deleted and re-added)",
		"per distinct state: export twice (byte-identical), custom modules' ValidateGenesis, InitChain of a fresh app, aol/did stores byte-identical, PNFT query matrix identical, re-export of aol/did/pnft/burn sections byte-identical",
		"non-custom modules' sections are not compared (ibc's validator rejects the SDK's own default export)",
	}
	return run.Finish()
}
