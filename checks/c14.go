package checks

import (
	"crypto/sha256"
	"encoding/hex"
	"fmt"
	"os"
	"os/exec"
	"reflect"
	"sort"
	"strconv"
	"strings"

	"github.com/cosmos/cosmos-sdk/client"
	sdk "github.com/cosmos/cosmos-sdk/types"
	"github.com/cosmos/cosmos-sdk/types/tx/signing"
	authsigning "github.com/cosmos/cosmos-sdk/x/auth/signing"
	gogoproto "github.com/cosmos/gogoproto/proto"
	aoltypes "github.com/medibloc/panacea-core/v2/x/aol/types"
	didtypes "github.com/medibloc/panacea-core/v2/x/did/types"
	pnfttypes "github.com/medibloc/panacea-core/v2/x/pnft/types"

	"verif/engine/report"
	"verif/engine/world"
)

// c14Domains: every field ranges over {"" where stateless validation allows it, v1, v2}; the same values are
// used across types on purpose, so that messages of different types have as many equal fields as possible.
// a description longer than anything a signing device displays, and the label an abbreviating sign doc would show for it
var c14Long = strings.Repeat("d", 300)
var c14LongLabel = func() string { h := sha256.Sum256([]byte(c14Long)); return "sha256:" + hex.EncodeToString(h[:]) }()

func c14Domains(e *domEnv) []*msgDom {
	A, B, W, F := e.A.Bech, e.B.Bech, e.W.Bech, e.F.Bech
	sv := func(name string, set strSetter, vals ...string) fdom {
		var c [][2]string
		for _, v := range vals {
			l := v
			if l == "" {
				l = "empty"
			}
			if len(l) > 14 {
				l = l[len(l)-6:]
			}
			c = append(c, [2]string{l, v})
		}
		return strField(name, set, c...)
	}
	bv := func(name string, set bytesSetter, vals ...string) fdom {
		fd := fdom{Name: name}
		for i, v := range vals {
			v := v
			l := v
			if l == "" {
				l = "empty"
			}
			if q := strconv.Quote(l); q != `"`+l+`"` && !strings.ContainsAny(l, "\"\\") {
				l = q // byte strings with control characters are shown quoted
			}
			fd.Classes = append(fd.Classes, fclass{Label: l, Odd: i > 0, Set: func(m sdk.Msg) {
				if v == "" {
					set(m, nil)
				} else {
					set(m, []byte(v))
				}
			}})
		}
		return fd
	}
	var ds []*msgDom
	ds = append(ds, &msgDom{Name: "aol.MsgCreateTopicRequest", New: func() sdk.Msg { return &aoltypes.MsgCreateTopicRequest{} }, Fields: []fdom{
		sv("topic_name", func(m sdk.Msg, v string) { m.(*aoltypes.MsgCreateTopicRequest).TopicName = v }, "a", "b"),
		sv("description", func(m sdk.Msg, v string) { m.(*aoltypes.MsgCreateTopicRequest).Description = v }, "", "x", "y", " x", "x ", "x\n", "\tx", `\tx`, `\u0078`, "a\xffb", "a\xfeb", c14Long, c14LongLabel, "caf\u00e9", "cafe\u0301"), // ... a long text with the digest label a sign doc might abbreviate it to; precomposed vs decomposed text
		sv("owner_address", func(m sdk.Msg, v string) { m.(*aoltypes.MsgCreateTopicRequest).OwnerAddress = v }, A, B),
	}})
	ds = append(ds, &msgDom{Name: "aol.MsgAddWriterRequest", New: func() sdk.Msg { return &aoltypes.MsgAddWriterRequest{} }, Fields: []fdom{
		sv("topic_name", func(m sdk.Msg, v string) { m.(*aoltypes.MsgAddWriterRequest).TopicName = v }, "a", "b"),
		sv("moniker", func(m sdk.Msg, v string) { m.(*aoltypes.MsgAddWriterRequest).Moniker = v }, "", "x", "y"),
		sv("description", func(m sdk.Msg, v string) { m.(*aoltypes.MsgAddWriterRequest).Description = v }, "", "x", "y", " x", "x\n", "\tx", `\tx`, `\u0078`, "a\xffb", "a\xfeb", c14Long, c14LongLabel, "caf\u00e9", "cafe\u0301"), // + byte strings that are not UTF-8, long text + its digest label, canonically equivalent text
		sv("writer_address", func(m sdk.Msg, v string) { m.(*aoltypes.MsgAddWriterRequest).WriterAddress = v }, W, B),
		sv("owner_address", func(m sdk.Msg, v string) { m.(*aoltypes.MsgAddWriterRequest).OwnerAddress = v }, A, B),
	}})
	ds = append(ds, &msgDom{Name: "aol.MsgDeleteWriterRequest", New: func() sdk.Msg { return &aoltypes.MsgDeleteWriterRequest{} }, Fields: []fdom{
		sv("topic_name", func(m sdk.Msg, v string) { m.(*aoltypes.MsgDeleteWriterRequest).TopicName = v }, "a", "b"),
		sv("writer_address", func(m sdk.Msg, v string) { m.(*aoltypes.MsgDeleteWriterRequest).WriterAddress = v }, W, B),
		sv("owner_address", func(m sdk.Msg, v string) { m.(*aoltypes.MsgDeleteWriterRequest).OwnerAddress = v }, A, B),
	}})
	ds = append(ds, &msgDom{Name: "aol.MsgAddRecordRequest", New: func() sdk.Msg { return &aoltypes.MsgAddRecordRequest{} }, Fields: []fdom{
		sv("topic_name", func(m sdk.Msg, v string) { m.(*aoltypes.MsgAddRecordRequest).TopicName = v }, "a", "b"),
		// keys: text, binary (control bytes), and text that spells the base64 / hex rendering of another key of the domain
		bv("key", func(m sdk.Msg, v []byte) { m.(*aoltypes.MsgAddRecordRequest).Key = v }, "", "x", "y", "eA==", "78", "\x01\x02\x03", "AQID", "010203"),
		bv("value", func(m sdk.Msg, v []byte) { m.(*aoltypes.MsgAddRecordRequest).Value = v }, "", "x", "y",
			// values that are themselves JSON (equivalent documents must still be different messages), and a JSON string that
			// spells the base64 of another value
			`{"a":1}`, `{"a": 1}`, `{"a":1,"a":2}`, `{"a":2}`, `9007199254740993`, `9007199254740992`, `"eA=="`, `"x"`, `null`, `[]`, "eA==", "\x01\x02\x03", "AQID", "010203"),
		sv("writer_address", func(m sdk.Msg, v string) { m.(*aoltypes.MsgAddRecordRequest).WriterAddress = v }, W, B),
		sv("owner_address", func(m sdk.Msg, v string) { m.(*aoltypes.MsgAddRecordRequest).OwnerAddress = v }, A, B),
		sv("fee_payer_address", func(m sdk.Msg, v string) { m.(*aoltypes.MsgAddRecordRequest).FeePayerAddress = v }, "", F, A, W, B), // incl. the writer's own address
	}})
	// DID: the document is one of several complete shapes about the did field
	k := e.DidKey
	docShapes := []string{"D1", "D2", "D3", "D5"}
	setDocShape := func(m sdk.Msg, shape string) {
		switch x := m.(type) {
		case *didtypes.MsgCreateDIDRequest:
			x.Document = k.doc(shape, x.Did)
		case *didtypes.MsgUpdateDIDRequest:
			x.Document = k.doc(shape, x.Did)
		}
	}
	docField := fdom{Name: "document"}
	for i, s := range docShapes {
		s := s
		docField.Classes = append(docField.Classes, fclass{Label: s, Odd: i > 0, Set: func(m sdk.Msg) { setDocShape(m, s) }})
	}
	docField.Classes = append(docField.Classes, fclass{Label: "D1+controller", Odd: true, Set: func(m sdk.Msg) {
		setDocShape(m, "D1")
		switch x := m.(type) {
		case *didtypes.MsgCreateDIDRequest:
			x.Document.Controller = &didtypes.JSONStringOrStrings{x.Did}
		case *didtypes.MsgUpdateDIDRequest:
			x.Document.Controller = &didtypes.JSONStringOrStrings{x.Did}
		}
	}})
	// list-valued document fields: repeated and re-ordered entries are different messages (they differ on the wire and in
	// what is stored) and must differ in every sign mode. (nil vs explicitly empty list is left out: the same value.)
	other := k.DIDs[1]
	for _, lc := range []struct {
		label string
		ctl   func(did string) []string
		ctx   []string
	}{
		{"D1+controller-twice", func(did string) []string { return []string{did, did} }, nil},
		{"D1+controller-two", func(did string) []string { return []string{did, other} }, nil},
		{"D1+controller-two-reversed", func(did string) []string { return []string{other, did} }, nil},
		{"D1+contexts-three", nil, []string{didtypes.ContextDIDV1, "https://a.example/v1", "https://b.example/v1"}},
		{"D1+contexts-three-reordered", nil, []string{didtypes.ContextDIDV1, "https://b.example/v1", "https://a.example/v1"}},
	} {
		lc := lc
		docField.Classes = append(docField.Classes, fclass{Label: lc.label, Odd: true, Set: func(m sdk.Msg) {
			setDocShape(m, "D1")
			var d *didtypes.DIDDocument
			var did string
			switch x := m.(type) {
			case *didtypes.MsgCreateDIDRequest:
				d, did = x.Document, x.Did
			case *didtypes.MsgUpdateDIDRequest:
				d, did = x.Document, x.Did
			}
			if lc.ctl != nil {
				c := didtypes.JSONStringOrStrings(lc.ctl(did))
				d.Controller = &c
			}
			if lc.ctx != nil {
				c := didtypes.JSONStringOrStrings(lc.ctx)
				d.Contexts = &c
			}
		}})
	}
	// an authentication entry written as an embedded object that carries only an id (and optionally a controller) differs on
	// the wire from the plain reference string; if stateless validation admits it, it must sign differently
	for _, ctl := range []string{"", "x"} {
		ctl := ctl
		docField.Classes = append(docField.Classes, fclass{Label: "D1+auth-as-bare-object" + ctl, Odd: true, Set: func(m sdk.Msg) {
			setDocShape(m, "D1")
			var d *didtypes.DIDDocument
			switch x := m.(type) {
			case *didtypes.MsgCreateDIDRequest:
				d = x.Document
			case *didtypes.MsgUpdateDIDRequest:
				d = x.Document
			}
			id := d.Authentications[0].GetVerificationMethodId()
			d.Authentications = []didtypes.VerificationRelationship{didtypes.NewVerificationRelationshipDedicated(didtypes.VerificationMethod{Id: id, Controller: ctl})}
		}})
	}
	// text fields holding byte sequences that are not UTF-8 (they differ on the wire; JSON would replace both by U+FFFD)
	for _, bad := range []string{"a\xffb", "a\xfeb"} {
		bad := bad
		for _, where := range []string{"service-endpoint", "method-controller", "context", "key-type"} {
			where := where
			docField.Classes = append(docField.Classes, fclass{Label: fmt.Sprintf("D5+%s=%q", where, bad), Odd: true, Set: func(m sdk.Msg) {
				setDocShape(m, "D5")
				var d *didtypes.DIDDocument
				switch x := m.(type) {
				case *didtypes.MsgCreateDIDRequest:
					d = x.Document
				case *didtypes.MsgUpdateDIDRequest:
					d = x.Document
				}
				switch where {
				case "service-endpoint":
					d.Services[0].ServiceEndpoint = "https://example.org/" + bad
				case "method-controller":
					d.VerificationMethods[0].Controller = bad
				case "context":
					c := didtypes.JSONStringOrStrings{didtypes.ContextDIDV1, "https://ctx.example/" + bad}
					d.Contexts = &c
				case "key-type":
					d.VerificationMethods = append(d.VerificationMethods, &didtypes.VerificationMethod{Id: d.Id + "#extra", Type: "Type" + bad, Controller: d.Id, PublicKeyBase58: d.VerificationMethods[0].PublicKeyBase58})
				}
			}})
		}
	}
	docField.Classes = append(docField.Classes, fclass{Label: "D1+method-controller-omitted", Odd: true, Set: func(m sdk.Msg) {
		setDocShape(m, "D1") // the same document with the verification method's controller left empty is a different message
		switch x := m.(type) {
		case *didtypes.MsgCreateDIDRequest:
			x.Document.VerificationMethods[0].Controller = ""
		case *didtypes.MsgUpdateDIDRequest:
			x.Document.VerificationMethods[0].Controller = ""
		}
	}})
	docField.Classes = append(docField.Classes, fclass{Label: "D1-no-context", Odd: true, Set: func(m sdk.Msg) {
		setDocShape(m, "D1")
		switch x := m.(type) {
		case *didtypes.MsgCreateDIDRequest:
			x.Document.Contexts = nil
		case *didtypes.MsgUpdateDIDRequest:
			x.Document.Contexts = nil
		}
	}})
	for _, mk := range []func() sdk.Msg{func() sdk.Msg { return &didtypes.MsgCreateDIDRequest{} }, func() sdk.Msg { return &didtypes.MsgUpdateDIDRequest{} }} {
		mk := mk
		name := "did.MsgCreateDIDRequest"
		if _, ok := mk().(*didtypes.MsgUpdateDIDRequest); ok {
			name = "did.MsgUpdateDIDRequest"
		}
		set := func(f func(c *didtypes.MsgCreateDIDRequest), g func(u *didtypes.MsgUpdateDIDRequest)) func(sdk.Msg, string) {
			return nil
		}
		_ = set
		ds = append(ds, &msgDom{Name: name, New: mk, Fields: []fdom{
			sv("did", func(m sdk.Msg, v string) {
				switch x := m.(type) {
				case *didtypes.MsgCreateDIDRequest:
					x.Did = v
				case *didtypes.MsgUpdateDIDRequest:
					x.Did = v
				}
			}, k.DIDs[0], k.DIDs[1]),
			docField,
			sv("verification_method_id", func(m sdk.Msg, v string) {
				switch x := m.(type) {
				case *didtypes.MsgCreateDIDRequest:
					x.VerificationMethodId = v
				case *didtypes.MsgUpdateDIDRequest:
					x.VerificationMethodId = v
				}
			}, "", "key1", "key2"),
			bv("signature", func(m sdk.Msg, v []byte) {
				switch x := m.(type) {
				case *didtypes.MsgCreateDIDRequest:
					x.Signature = v
				case *didtypes.MsgUpdateDIDRequest:
					x.Signature = v
				}
			}, "x", "y"),
			sv("from_address", func(m sdk.Msg, v string) {
				switch x := m.(type) {
				case *didtypes.MsgCreateDIDRequest:
					x.FromAddress = v
				case *didtypes.MsgUpdateDIDRequest:
					x.FromAddress = v
				}
			}, A, B),
		}})
	}
	ds = append(ds, &msgDom{Name: "did.MsgDeactivateDIDRequest", New: func() sdk.Msg { return &didtypes.MsgDeactivateDIDRequest{} }, Fields: []fdom{
		sv("did", func(m sdk.Msg, v string) { m.(*didtypes.MsgDeactivateDIDRequest).Did = v }, k.DIDs[0], k.DIDs[1]),
		sv("verification_method_id", func(m sdk.Msg, v string) { m.(*didtypes.MsgDeactivateDIDRequest).VerificationMethodId = v }, "", "key1", "key2"),
		bv("signature", func(m sdk.Msg, v []byte) { m.(*didtypes.MsgDeactivateDIDRequest).Signature = v }, "x", "y"),
		sv("from_address", func(m sdk.Msg, v string) { m.(*didtypes.MsgDeactivateDIDRequest).FromAddress = v }, A, B),
	}})
	// PNFT
	ds = append(ds, &msgDom{Name: "pnft.MsgCreateDenomRequest", New: func() sdk.Msg { return &pnfttypes.MsgCreateDenomRequest{} }, Fields: []fdom{
		sv("id", func(m sdk.Msg, v string) { m.(*pnfttypes.MsgCreateDenomRequest).Id = v }, "a", "b"),
		sv("name", func(m sdk.Msg, v string) { m.(*pnfttypes.MsgCreateDenomRequest).Name = v }, "x", "y"),
		sv("symbol", func(m sdk.Msg, v string) { m.(*pnfttypes.MsgCreateDenomRequest).Symbol = v }, "x", "y"),
		sv("description", func(m sdk.Msg, v string) { m.(*pnfttypes.MsgCreateDenomRequest).Description = v }, "", "x", "y", "a\xffb", "a\xfeb"),
		sv("uri", func(m sdk.Msg, v string) { m.(*pnfttypes.MsgCreateDenomRequest).Uri = v }, "", "x"),
		sv("uri_hash", func(m sdk.Msg, v string) { m.(*pnfttypes.MsgCreateDenomRequest).UriHash = v }, "", "x"),
		sv("data", func(m sdk.Msg, v string) { m.(*pnfttypes.MsgCreateDenomRequest).Data = v }, "", "x"),
		sv("creator", func(m sdk.Msg, v string) { m.(*pnfttypes.MsgCreateDenomRequest).Creator = v }, A, B),
	}})
	ds = append(ds, &msgDom{Name: "pnft.MsgUpdateDenomRequest", New: func() sdk.Msg { return &pnfttypes.MsgUpdateDenomRequest{} }, Fields: []fdom{
		sv("id", func(m sdk.Msg, v string) { m.(*pnfttypes.MsgUpdateDenomRequest).Id = v }, "a", "b"),
		sv("name", func(m sdk.Msg, v string) { m.(*pnfttypes.MsgUpdateDenomRequest).Name = v }, "", "x", "y"),
		sv("symbol", func(m sdk.Msg, v string) { m.(*pnfttypes.MsgUpdateDenomRequest).Symbol = v }, "", "x", "y"),
		sv("description", func(m sdk.Msg, v string) { m.(*pnfttypes.MsgUpdateDenomRequest).Description = v }, "", "x", "y"),
		sv("uri", func(m sdk.Msg, v string) { m.(*pnfttypes.MsgUpdateDenomRequest).Uri = v }, "", "x"),
		sv("uri_hash", func(m sdk.Msg, v string) { m.(*pnfttypes.MsgUpdateDenomRequest).UriHash = v }, "", "x"),
		sv("data", func(m sdk.Msg, v string) { m.(*pnfttypes.MsgUpdateDenomRequest).Data = v }, "", "x"),
		sv("updater", func(m sdk.Msg, v string) { m.(*pnfttypes.MsgUpdateDenomRequest).Updater = v }, A, B),
	}})
	ds = append(ds, &msgDom{Name: "pnft.MsgDeleteDenomRequest", New: func() sdk.Msg { return &pnfttypes.MsgDeleteDenomRequest{} }, Fields: []fdom{
		sv("id", func(m sdk.Msg, v string) { m.(*pnfttypes.MsgDeleteDenomRequest).Id = v }, "a", "b"),
		sv("remover", func(m sdk.Msg, v string) { m.(*pnfttypes.MsgDeleteDenomRequest).Remover = v }, A, B),
	}})
	ds = append(ds, &msgDom{Name: "pnft.MsgTransferDenomRequest", New: func() sdk.Msg { return &pnfttypes.MsgTransferDenomRequest{} }, Fields: []fdom{
		sv("id", func(m sdk.Msg, v string) { m.(*pnfttypes.MsgTransferDenomRequest).Id = v }, "a", "b"),
		sv("sender", func(m sdk.Msg, v string) { m.(*pnfttypes.MsgTransferDenomRequest).Sender = v }, A, B),
		sv("receiver", func(m sdk.Msg, v string) { m.(*pnfttypes.MsgTransferDenomRequest).Receiver = v }, A, B),
	}})
	ds = append(ds, &msgDom{Name: "pnft.MsgMintPNFTRequest", New: func() sdk.Msg { return &pnfttypes.MsgMintPNFTRequest{} }, Fields: []fdom{
		sv("denom_id", func(m sdk.Msg, v string) { m.(*pnfttypes.MsgMintPNFTRequest).DenomId = v }, "a", "b"),
		sv("id", func(m sdk.Msg, v string) { m.(*pnfttypes.MsgMintPNFTRequest).Id = v }, "a", "b"),
		sv("name", func(m sdk.Msg, v string) { m.(*pnfttypes.MsgMintPNFTRequest).Name = v }, "x", "y"),
		sv("description", func(m sdk.Msg, v string) { m.(*pnfttypes.MsgMintPNFTRequest).Description = v }, "", "x", "y"),
		sv("uri", func(m sdk.Msg, v string) { m.(*pnfttypes.MsgMintPNFTRequest).Uri = v }, "", "x"),
		sv("uri_hash", func(m sdk.Msg, v string) { m.(*pnfttypes.MsgMintPNFTRequest).UriHash = v }, "", "x"),
		sv("data", func(m sdk.Msg, v string) { m.(*pnfttypes.MsgMintPNFTRequest).Data = v }, "", "x"),
		sv("creator", func(m sdk.Msg, v string) { m.(*pnfttypes.MsgMintPNFTRequest).Creator = v }, A, B),
	}})
	ds = append(ds, &msgDom{Name: "pnft.MsgTransferPNFTRequest", New: func() sdk.Msg { return &pnfttypes.MsgTransferPNFTRequest{} }, Fields: []fdom{
		sv("denom_id", func(m sdk.Msg, v string) { m.(*pnfttypes.MsgTransferPNFTRequest).DenomId = v }, "a", "b"),
		sv("id", func(m sdk.Msg, v string) { m.(*pnfttypes.MsgTransferPNFTRequest).Id = v }, "a", "b"),
		sv("sender", func(m sdk.Msg, v string) { m.(*pnfttypes.MsgTransferPNFTRequest).Sender = v }, A, B),
		sv("receiver", func(m sdk.Msg, v string) { m.(*pnfttypes.MsgTransferPNFTRequest).Receiver = v }, A, B),
	}})
	ds = append(ds, &msgDom{Name: "pnft.MsgBurnPNFTRequest", New: func() sdk.Msg { return &pnfttypes.MsgBurnPNFTRequest{} }, Fields: []fdom{
		sv("denom_id", func(m sdk.Msg, v string) { m.(*pnfttypes.MsgBurnPNFTRequest).DenomId = v }, "a", "b"),
		sv("id", func(m sdk.Msg, v string) { m.(*pnfttypes.MsgBurnPNFTRequest).Id = v }, "a", "b"),
		sv("burner", func(m sdk.Msg, v string) { m.(*pnfttypes.MsgBurnPNFTRequest).Burner = v }, A, B),
	}})
	// the DID verification method ids above are relative labels: make them absolute and valid
	for _, d := range ds {
		if !strings.HasPrefix(d.Name, "did.") {
			continue
		}
		for i, f := range d.Fields {
			if f.Name != "verification_method_id" {
				continue
			}
			for j, c := range f.Classes {
				lbl := c.Label
				d.Fields[i].Classes[j].Set = func(m sdk.Msg) {
					v := ""
					switch x := m.(type) {
					case *didtypes.MsgCreateDIDRequest:
						if lbl != "empty" {
							v = x.Did + "#" + lbl
						}
						x.VerificationMethodId = v
					case *didtypes.MsgUpdateDIDRequest:
						if lbl != "empty" {
							v = x.Did + "#" + lbl
						}
						x.VerificationMethodId = v
					case *didtypes.MsgDeactivateDIDRequest:
						if lbl != "empty" {
							v = x.Did + "#" + lbl
						}
						x.VerificationMethodId = v
					}
				}
			}
		}
	}
	return ds
}

// zeroFields lists the names of zero-valued exported fields (the "empty optional fields" of a message).
func zeroFields(m sdk.Msg) []string {
	v := reflect.ValueOf(m).Elem()
	var out []string
	for i := 0; i < v.NumField(); i++ {
		f := v.Type().Field(i)
		if !f.IsExported() || strings.HasPrefix(f.Name, "XXX_") {
			continue
		}
		if v.Field(i).IsZero() || (v.Field(i).Kind() == reflect.Slice && v.Field(i).Len() == 0) {
			out = append(out, f.Name)
		}
	}
	sort.Strings(out)
	return out
}

type c14msg struct {
	typ   string
	msg   sdk.Msg // the object stateless validation has run on (what the ante handler computes legacy sign bytes from)
	fresh sdk.Msg // a copy decoded from the submitted bytes and never validated (DIRECT modes sign the submitted bytes)
	proto string
}

var c14Modes = []signing.SignMode{signing.SignMode_SIGN_MODE_DIRECT, signing.SignMode_SIGN_MODE_DIRECT_AUX, signing.SignMode_SIGN_MODE_LEGACY_AMINO_JSON}

func c14SignBytes(txc client.TxConfig, mode signing.SignMode, m sdk.Msg, signer, aux *world.Account) (bz []byte, err error) {
	defer func() {
		if r := recover(); r != nil {
			err = fmt.Errorf("sign mode not supported by message: %v", r)
		}
	}()
	b := txc.NewTxBuilder()
	if err := b.SetMsgs(m); err != nil {
		return nil, err
	}
	b.SetGasLimit(200000)
	b.SetFeeAmount(aolFee)
	b.SetMemo("memo")
	who := signer
	if mode == signing.SignMode_SIGN_MODE_DIRECT_AUX {
		who = aux // the fee payer cannot sign with DIRECT_AUX
	}
	if err := b.SetSignatures(signing.SignatureV2{PubKey: who.Priv.PubKey(), Data: &signing.SingleSignatureData{SignMode: mode}, Sequence: 3}); err != nil {
		return nil, err
	}
	sd := authsigning.SignerData{Address: who.Bech, ChainID: world.ChainID, AccountNumber: 7, Sequence: 3, PubKey: who.Priv.PubKey()}
	return txc.SignModeHandler().GetSignBytes(mode, sd, b.GetTx())
}

func c14Enumerate(e *domEnv) []c14msg {
	var out []c14msg
	for _, d := range c14Domains(e) {
		d.product(-1, func(m sdk.Msg, _ []string, _ int) {
			// identity of the message = its bytes as submitted, taken BEFORE stateless validation runs on the decoded object
			// (the ante handler computes legacy sign bytes from the object that ValidateBasic has already seen)
			bz, err := gogoproto.Marshal(m)
			if err != nil {
				return
			}
			fresh := d.New()
			if err := gogoproto.Unmarshal(bz, fresh.(gogoproto.Message)); err != nil {
				return
			}
			if err := m.ValidateBasic(); err != nil {
				return
			}
			out = append(out, c14msg{d.Name, m, fresh, string(bz)})
		})
	}
	return out
}

// C14Digest prints one digest per sign mode over all sign bytes in enumeration order (used by the child process).
func C14Digest() map[string]string {
	e := newDomEnv()
	w := world.New(world.Options{Accounts: []*world.Account{e.A}})
	txc := w.TxConfig()
	X := world.NewAccount("X")
	out := map[string]string{}
	msgs := c14Enumerate(e)
	for _, mode := range c14Modes {
		h := sha256.New()
		for _, m := range msgs {
			bz, err := c14SignBytes(txc, mode, m.msg, e.A, X)
			if err != nil {
				h.Write([]byte("E"))
				continue
			}
			h.Write(bz)
			h.Write([]byte{0})
		}
		out[mode.String()] = hex.EncodeToString(h.Sum(nil))
	}
	return out
}

func C14(t Tier) int {
	run := report.NewRun("C14", t.Name, "exploration", "E3+E1")
	e := newDomEnv()
	X := world.NewAccount("X")
	w := populated(e, X)
	txc := w.TxConfig()
	msgs := c14Enumerate(e)
	perType := map[string]int{}
	for _, m := range msgs {
		perType[m.typ]++
	}
	evals, pairs := 0, 0
	var samples []any
	type collision struct {
		mode signing.SignMode
		a, b c14msg
	}
	var cols []collision
	supported := map[string]map[string]bool{}
	for _, mode := range c14Modes {
		groups := map[string]c14msg{}
		n := 0
		supported[mode.String()] = map[string]bool{}
		for _, m := range msgs {
			obj := m.msg
			if mode != signing.SignMode_SIGN_MODE_LEGACY_AMINO_JSON {
				obj = m.fresh
			}
			bz, err := c14SignBytes(txc, mode, obj, e.A, X)
			evals++
			if err != nil {
				continue
			}
			n++
			supported[mode.String()][m.typ] = true
			// stability: identical every time they are computed
			for i := 0; i < 2; i++ {
				again, _ := c14SignBytes(txc, mode, obj, e.A, X)
				if string(again) != string(bz) {
					run.Add(report.Viol{Kind: "unstable-signbytes", Sig: "unstable:" + mode.String() + ":" + m.typ, Msg: "sign bytes differ between two computations in one process", Replay: map[string]any{"type": m.typ}})
				}
			}
			if prev, ok := groups[string(bz)]; ok {
				if prev.typ != m.typ || prev.proto != m.proto {
					cols = append(cols, collision{mode, prev, m})
				}
			} else {
				groups[string(bz)] = m
			}
		}
		pairs += n * (n - 1)
		if len(samples) < 3 && len(msgs) > 0 {
			bz, _ := c14SignBytes(txc, mode, msgs[len(msgs)/2].msg, e.A, X)
			s := string(bz)
			if mode != signing.SignMode_SIGN_MODE_LEGACY_AMINO_JSON {
				s = hex.EncodeToString(bz)
			}
			if len(s) > 400 {
				s = s[:400] + "..."
			}
			samples = append(samples, map[string]any{"mode": mode.String(), "type": msgs[len(msgs)/2].typ, "sign_bytes": s})
		}
	}
	// stateless validation must not change what is signed: sign bytes of a freshly decoded copy (never validated) must
	// equal the sign bytes computed after ValidateBasic has run on it
	for _, m := range msgs {
		fresh, ok := reflect.New(reflect.TypeOf(m.msg).Elem()).Interface().(sdk.Msg)
		if !ok || gogoproto.Unmarshal([]byte(m.proto), fresh.(gogoproto.Message)) != nil {
			continue
		}
		before, err1 := c14SignBytes(txc, signing.SignMode_SIGN_MODE_LEGACY_AMINO_JSON, fresh, e.A, X)
		_ = fresh.ValidateBasic()
		after, err2 := c14SignBytes(txc, signing.SignMode_SIGN_MODE_LEGACY_AMINO_JSON, fresh, e.A, X)
		evals++
		if err1 == nil && err2 == nil && string(before) != string(after) {
			run.Add(report.Viol{Kind: "unstable-signbytes", Sig: "unstable-across-validation:" + m.typ, Msg: fmt.Sprintf("the legacy sign bytes of a %s differ before and after ValidateBasic ran on the decoded message (stateless validation mutates what is signed): %q vs %q", m.typ, firstN(string(before), 300), firstN(string(after), 300)), Replay: map[string]any{"check": "C14", "type": m.typ}})
			break
		}
	}
	// one violation per (mode, type pair, set of empty fields)
	seen := map[string]bool{}
	for _, c := range cols {
		ta, tb := c.a, c.b
		if ta.typ > tb.typ {
			ta, tb = tb, ta
		}
		sig := fmt.Sprintf("signbytes-collision:%s:%s~%s:empty=%s|%s", c.mode, ta.typ, tb.typ, strings.Join(zeroFields(ta.msg), ","), strings.Join(zeroFields(tb.msg), ","))
		if seen[sig] {
			continue
		}
		seen[sig] = true
		// demonstrate against the real chain: signature made over ta's transaction, attached to tb's transaction
		swap := c14Swap(w, c.mode, ta.msg, tb.msg, e)
		run.Add(report.Viol{Kind: "signbytes-collision", Sig: sig,
			Msg:    fmt.Sprintf("under %s a %s and a %s that differ in type/fields share their sign bytes; delivering the second with a signature collected for the first: %s", c.mode, ta.typ, tb.typ, swap),
			Replay: map[string]any{"check": "C14", "mode": c.mode.String(), "first": fmt.Sprintf("%s %v", ta.typ, ta.msg), "second": fmt.Sprintf("%s %v", tb.typ, tb.msg)}})
	}
	// swap delivery for every ordered pair of types (representatives signed by A): must be refused
	reps := map[string]sdk.Msg{}
	for _, m := range msgs {
		if _, ok := reps[m.typ]; !ok && len(m.msg.GetSigners()) == 1 && m.msg.GetSigners()[0].Equals(e.A.Addr) && len(zeroFields(m.msg)) == 0 {
			reps[m.typ] = m.msg
		}
	}
	for _, m := range msgs { // types whose messages always have some empty field
		if _, ok := reps[m.typ]; !ok && len(m.msg.GetSigners()) == 1 && m.msg.GetSigners()[0].Equals(e.A.Addr) {
			reps[m.typ] = m.msg
		}
	}
	swaps := 0
	for _, ta := range sortedKeys(reps) {
		for _, tb := range sortedKeys(reps) {
			if ta == tb {
				continue
			}
			for _, mode := range []signing.SignMode{signing.SignMode_SIGN_MODE_DIRECT, signing.SignMode_SIGN_MODE_LEGACY_AMINO_JSON} {
				if !supported[mode.String()][ta] || !supported[mode.String()][tb] {
					continue
				}
				swaps++
				res := c14Swap(w, mode, reps[ta], reps[tb], e)
				if !strings.HasPrefix(res, "refused") {
					run.Add(report.Viol{Kind: "swap-accepted", Sig: fmt.Sprintf("swap-accepted:%s:%s->%s", mode, ta, tb),
						Msg:    fmt.Sprintf("a signature collected for a %s validated a transaction carrying a %s: %s", ta, tb, res),
						Replay: map[string]any{"check": "C14", "mode": mode.String(), "signed": ta, "delivered": tb}})
				}
			}
		}
	}
	// the same bytes on every node: recompute in a child process with a different GOMAXPROCS
	mine := C14Digest()
	cmd := exec.Command(os.Args[0], "C14-digest")
	cmd.Env = append(os.Environ(), "GOMAXPROCS=1")
	outb, err := cmd.Output()
	if err != nil {
		fmt.Fprintf(os.Stderr, "HARNESS ERROR: C14 child process failed: %v\n", err)
		return 2
	}
	for _, mode := range c14Modes {
		want := fmt.Sprintf("%s=%s", mode.String(), mine[mode.String()])
		if !strings.Contains(string(outb), want) {
			run.Add(report.Viol{Kind: "unstable-signbytes", Sig: "unstable-across-processes:" + mode.String(), Msg: "digest of all sign bytes differs between two processes: " + want + " vs " + string(outb), Replay: map[string]any{"check": "C14"}})
		}
	}
	run.Coverage["evaluations"] = evals
	run.Coverage["distinct_nontrivial"] = len(msgs)
	run.Coverage["rule"] = "every message of the 14 custom types over a per-field domain {empty where stateless validation allows it, v1, v2} (same values across types) that passes ValidateBasic; for each enabled sign mode (DIRECT, DIRECT_AUX, LEGACY_AMINO_JSON) the sign bytes from TxConfig.SignModeHandler().GetSignBytes with identical signer data, fee and memo; grouping by bytes decides all ordered pairs; one swap delivery per ordered pair of types and per colliding class against the real ante handler; digests recomputed in a child process. non-trivial = distinct messages that pass stateless validation"
	run.Coverage["samples"] = samples
	run.Coverage["exhaustive"] = true
	run.Coverage["ordered_pairs_decided"] = pairs
	run.Coverage["messages_per_type"] = perType
	run.Coverage["swap_deliveries"] = swaps
	run.Coverage["modes_supported_by_type"] = supported
	run.Assumptions = []string{"single-signature transactions; multisig / Ledger / textual sign modes are not enabled by the app's TxConfig and not explored",
		"PNFT messages do not implement legacytx.LegacyMsg, so LEGACY_AMINO_JSON is simply unavailable for them (error, not a violation)"}
	return run.Finish()
}

// c14Swap signs the transaction carrying `signed` with A's key and attaches that signature to a transaction
// carrying `delivered`; returns "refused: ..." or "ACCEPTED ...".
func c14Swap(w *world.World, mode signing.SignMode, signed, delivered sdk.Msg, e *domEnv) (out string) {
	defer func() {
		if r := recover(); r != nil {
			out = fmt.Sprintf("refused: cannot build (%v)", r)
		}
	}()
	txc := w.TxConfig()
	num, seq, _ := w.AccountNumSeq(e.A.Addr)
	build := func(m sdk.Msg) client.TxBuilder {
		b := txc.NewTxBuilder()
		if err := b.SetMsgs(m); err != nil {
			panic(err)
		}
		b.SetGasLimit(2_000_000)
		b.SetFeeAmount(aolFee)
		b.SetMemo("memo")
		if err := b.SetSignatures(signing.SignatureV2{PubKey: e.A.Priv.PubKey(), Data: &signing.SingleSignatureData{SignMode: mode}, Sequence: seq}); err != nil {
			panic(err)
		}
		return b
	}
	sd := authsigning.SignerData{Address: e.A.Bech, ChainID: world.ChainID, AccountNumber: num, Sequence: seq, PubKey: e.A.Priv.PubKey()}
	b1 := build(signed)
	sb, err := txc.SignModeHandler().GetSignBytes(mode, sd, b1.GetTx())
	if err != nil {
		return "refused: " + err.Error()
	}
	sig, err := e.A.Priv.Sign(sb)
	if err != nil {
		panic(err)
	}
	b2 := build(delivered)
	if err := b2.SetSignatures(signing.SignatureV2{PubKey: e.A.Priv.PubKey(), Data: &signing.SingleSignatureData{SignMode: mode, Signature: sig}, Sequence: seq}); err != nil {
		panic(err)
	}
	bz, err := txc.TxEncoder()(b2.GetTx())
	if err != nil {
		panic(err)
	}
	discard := w.Fork()
	defer discard()
	res := w.Deliver(bz)
	if res.Code == 0 {
		return "ACCEPTED (code 0): the transaction executed"
	}
	if res.Codespace == "sdk" && res.Code == 4 {
		return "refused: unauthorized (signature verification failed)"
	}
	// the signature check passed if the failure comes from the message handler
	if res.Codespace != "sdk" {
		return fmt.Sprintf("SIGNATURE ACCEPTED, handler then returned %s/%d: %s", res.Codespace, res.Code, firstLineOf(res.Log))
	}
	return fmt.Sprintf("refused: %s/%d %s", res.Codespace, res.Code, firstLineOf(res.Log))
}
