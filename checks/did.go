package checks

import (
	"bytes"
	"crypto/sha256"
	"encoding/base64"
	"encoding/binary"
	"encoding/json"
	"fmt"
	"sort"
	"strings"
	"time"

	"github.com/btcsuite/btcutil/base58"
	tmsecp "github.com/cometbft/cometbft/crypto/secp256k1"
	"github.com/cosmos/cosmos-sdk/codec"
	sdk "github.com/cosmos/cosmos-sdk/types"
	"github.com/cosmos/cosmos-sdk/x/authz"
	didtypes "github.com/medibloc/panacea-core/v2/x/did/types"

	"verif/engine/explore"
	"verif/engine/report"
	"verif/engine/world"
)

// ---------------------------------------------------------------------------------------------
// Reference registry
// ---------------------------------------------------------------------------------------------

type didEntry struct {
	Doc  *didtypes.DIDDocument // immutable alphabet constant (nil when tombstoned)
	Seq  uint64
	Tomb bool
}

type didAccepted struct {
	Kind string // create | update | deactivate
	Msg  sdk.Msg
	Hash string
}

type didModel struct {
	Entries  map[string]*didEntry
	Accepted []didAccepted // sorted by Hash (multiset semantics)
}

func newDidModel() *didModel { return &didModel{Entries: map[string]*didEntry{}} }

func (m *didModel) clone() *didModel {
	n := newDidModel()
	for k, e := range m.Entries {
		c := *e
		n.Entries[k] = &c
	}
	n.Accepted = append([]didAccepted{}, m.Accepted...)
	return n
}

func (m *didModel) addAccepted(kind string, msg sdk.Msg) {
	bz, _ := msg.(interface{ Marshal() ([]byte, error) }).Marshal()
	h := sha256.Sum256(append([]byte(kind+"|"), bz...))
	m.Accepted = append(m.Accepted, didAccepted{Kind: kind, Msg: msg, Hash: string(h[:])})
	sort.SliceStable(m.Accepted, func(i, j int) bool { return m.Accepted[i].Hash < m.Accepted[j].Hash })
}

// authKey resolves a verification method id among the document's *authentication* relationships
// (dedicated methods and references into verificationMethod), independently of the repository's resolver.
func authKey(doc *didtypes.DIDDocument, id string) (*didtypes.VerificationMethod, bool) {
	if doc == nil {
		return nil, false
	}
	for _, rel := range doc.Authentications {
		if vm := rel.GetVerificationMethod(); vm != nil {
			if vm.Id == id {
				return vm, true
			}
			continue
		}
		if rel.GetVerificationMethodId() == id {
			for _, vm := range doc.VerificationMethods {
				if vm.Id == id {
					return vm, true
				}
			}
			return nil, false
		}
	}
	return nil, false
}

func didSignBytes(content *didtypes.DIDDocument, seq uint64) []byte {
	data, err := content.Marshal()
	if err != nil {
		panic(err)
	}
	bz, err := (&didtypes.DataWithSeq{Data: data, Sequence: seq}).Marshal()
	if err != nil {
		panic(err)
	}
	return bz
}

// proofOK: does sig verify under an ES256K authentication key `vmID` of `keysDoc`, over (content, seq)?
func proofOK(keysDoc *didtypes.DIDDocument, vmID string, sig []byte, content *didtypes.DIDDocument, seq uint64) (bool, string) {
	vm, ok := authKey(keysDoc, vmID)
	if !ok {
		return false, "key-not-under-authentication"
	}
	if vm.Type != "EcdsaSecp256k1VerificationKey2019" && vm.Type != "Secp256k1VerificationKey2018" {
		return false, "key-type-not-secp256k1"
	}
	raw := base58.Decode(vm.PublicKeyBase58)
	if len(raw) != tmsecp.PubKeySize {
		return false, "bad-public-key"
	}
	if !tmsecp.PubKey(raw).VerifySignature(didSignBytes(content, seq), sig) {
		return false, "signature-does-not-verify(content,seq)"
	}
	return true, ""
}

// didExpect is the reference verdict for one DID message; on accept the effect is applied to m.
// strictID adds the C11 requirement document.id == did.
func didExpect(m *didModel, msg sdk.Msg, strictID bool) (bool, string) {
	switch x := msg.(type) {
	case *didtypes.MsgCreateDIDRequest:
		if !refDID(x.Did) {
			return false, "did-syntax"
		}
		if e, ok := m.Entries[x.Did]; ok {
			if e.Tomb {
				return false, "tombstoned"
			}
			return false, "exists"
		}
		if x.Document == nil {
			return false, "no-document"
		}
		if strictID && x.Document.Id != x.Did {
			return false, "document-id-differs-from-did"
		}
		if ok, why := proofOK(x.Document, x.VerificationMethodId, x.Signature, x.Document, 0); !ok {
			return false, why
		}
		m.Entries[x.Did] = &didEntry{Doc: x.Document, Seq: 0}
		m.addAccepted("create", msg)
		return true, ""
	case *didtypes.MsgUpdateDIDRequest:
		e, ok := m.Entries[x.Did]
		if !ok {
			return false, "absent"
		}
		if e.Tomb {
			return false, "tombstoned"
		}
		if x.Document == nil {
			return false, "no-document"
		}
		if strictID && x.Document.Id != x.Did {
			return false, "document-id-differs-from-did"
		}
		if ok, why := proofOK(e.Doc, x.VerificationMethodId, x.Signature, x.Document, e.Seq); !ok {
			return false, why
		}
		e.Doc = x.Document
		e.Seq++
		m.addAccepted("update", msg)
		return true, ""
	case *didtypes.MsgDeactivateDIDRequest:
		e, ok := m.Entries[x.Did]
		if !ok {
			return false, "absent"
		}
		if e.Tomb {
			return false, "tombstoned"
		}
		if ok, why := proofOK(e.Doc, x.VerificationMethodId, x.Signature, &didtypes.DIDDocument{Id: x.Did}, e.Seq); !ok {
			return false, why
		}
		e.Doc = nil
		e.Tomb = true
		e.Seq++
		m.addAccepted("deactivate", msg)
		return true, ""
	case *authz.MsgExec:
		inner, err := x.GetMessages()
		if err != nil {
			return false, err.Error()
		}
		grantee, _ := sdk.AccAddressFromBech32(x.Grantee)
		for _, im := range inner {
			sg := refSigners(im)
			if len(sg) != 1 || !bytes.Equal(sg[0], grantee) {
				return false, "exec-without-grant"
			}
			if ok, why := didExpect(m, im, strictID); !ok {
				return false, why
			}
		}
		return true, ""
	}
	return false, "not-a-did-message"
}

// ---------------------------------------------------------------------------------------------
// Alphabet
// ---------------------------------------------------------------------------------------------

type didEnv struct {
	R1, R2 *world.Account
	Keys   []tmsecp.PrivKey // k1,k2,k3
	DIDs   []string         // d1,d2
	Prefix [2]string        // dp (43-character id) and dp+"m": a valid DID that is a byte-prefix of another valid DID
	Lead   string           // "d"+dp's identifier: dp's identifier with one more LEADING letter (a letter of the method prefix itself)
}

func newDidEnv() *didEnv {
	e := &didEnv{R1: world.NewAccount("R1"), R2: world.NewAccount("R2")}
	for i := 1; i <= 3; i++ {
		e.Keys = append(e.Keys, tmsecp.GenPrivKeySecp256k1([]byte(fmt.Sprintf("verif-did-key-%d", i))))
	}
	for i := 0; i < 2; i++ {
		e.DIDs = append(e.DIDs, didtypes.NewDID(e.Keys[i].PubKey().Bytes()))
	}
	e.Prefix = [2]string{"did:panacea:" + strings.Repeat("7", 43), "did:panacea:" + strings.Repeat("7", 43) + "m"}
	e.Lead = "did:panacea:d" + strings.Repeat("7", 43)
	return e
}

func (e *didEnv) pub(k int) []byte { return e.Keys[k-1].PubKey().Bytes() }

func (e *didEnv) vmID(did string, k int) string { return fmt.Sprintf("%s#key%d", did, k) }

func (e *didEnv) vm(did string, k int, typ string) *didtypes.VerificationMethod {
	v := didtypes.NewVerificationMethod(e.vmID(did, k), typ, did, e.pub(k))
	return &v
}

const es256k = "EcdsaSecp256k1VerificationKey2019"

// doc builds document shape `shape` for DID did.
func (e *didEnv) doc(shape string, did string) *didtypes.DIDDocument {
	ref := func(k int) didtypes.VerificationRelationship {
		return didtypes.NewVerificationRelationship(e.vmID(did, k))
	}
	var d didtypes.DIDDocument
	switch shape {
	case "D1": // vm[k1] auth[ref k1]
		d = didtypes.NewDIDDocument(did, didtypes.WithVerificationMethods([]*didtypes.VerificationMethod{e.vm(did, 1, es256k)}),
			didtypes.WithAuthentications([]didtypes.VerificationRelationship{ref(1)}))
	case "D2": // vm[k1,k2] auth[ref k2]: k1 demoted to a plain verification method
		d = didtypes.NewDIDDocument(did, didtypes.WithVerificationMethods([]*didtypes.VerificationMethod{e.vm(did, 1, es256k), e.vm(did, 2, es256k)}),
			didtypes.WithAuthentications([]didtypes.VerificationRelationship{ref(2)}))
	case "D3": // vm[k1] auth[dedicated k2] assertion[ref k1]
		d = didtypes.NewDIDDocument(did, didtypes.WithVerificationMethods([]*didtypes.VerificationMethod{e.vm(did, 1, es256k)}),
			didtypes.WithAuthentications([]didtypes.VerificationRelationship{didtypes.NewVerificationRelationshipDedicated(*e.vm(did, 2, es256k))}),
			didtypes.WithAssertionMethods([]didtypes.VerificationRelationship{ref(1)}))
	case "D4": // vm[k1 typed Ed25519] auth[ref k1]
		d = didtypes.NewDIDDocument(did, didtypes.WithVerificationMethods([]*didtypes.VerificationMethod{e.vm(did, 1, "Ed25519VerificationKey2018")}),
			didtypes.WithAuthentications([]didtypes.VerificationRelationship{ref(1)}))
	case "D5": // D1 plus a service and a second context
		d = didtypes.NewDIDDocument(did, didtypes.WithVerificationMethods([]*didtypes.VerificationMethod{e.vm(did, 1, es256k)}),
			didtypes.WithAuthentications([]didtypes.VerificationRelationship{ref(1)}),
			didtypes.WithServices([]*didtypes.Service{{Id: "svc1", Type: "LinkedDomains", ServiceEndpoint: "https://example.org"}}))
		d.Contexts = &didtypes.JSONStringOrStrings{didtypes.ContextDIDV1, "https://w3id.org/security/v1"}
	case "D6": // vm[k1 typed with the deprecated Secp256k1VerificationKey2018] auth[ref k1]
		d = didtypes.NewDIDDocument(did, didtypes.WithVerificationMethods([]*didtypes.VerificationMethod{e.vm(did, 1, "Secp256k1VerificationKey2018")}),
			didtypes.WithAuthentications([]didtypes.VerificationRelationship{ref(1)}))
	case "D7": // id collision: vm[key1 = k1] auth[EMBEDDED method with the same id key1 but key k2] assertion[ref key1]
		emb := e.vm(did, 1, es256k)
		emb.PublicKeyBase58 = e.vm(did, 2, es256k).PublicKeyBase58
		d = didtypes.NewDIDDocument(did, didtypes.WithVerificationMethods([]*didtypes.VerificationMethod{e.vm(did, 1, es256k)}),
			didtypes.WithAuthentications([]didtypes.VerificationRelationship{didtypes.NewVerificationRelationshipDedicated(*emb)}),
			didtypes.WithAssertionMethods([]didtypes.VerificationRelationship{ref(1)}))
	case "D8": // one id shared by two methods holding the SAME key k1 (2019 type first, deprecated 2018 type second)
		d = didtypes.NewDIDDocument(did, didtypes.WithVerificationMethods([]*didtypes.VerificationMethod{e.vm(did, 1, es256k), e.vm(did, 1, "Secp256k1VerificationKey2018")}),
			didtypes.WithAuthentications([]didtypes.VerificationRelationship{ref(1)}))
	case "D9": // vm[key1 = k1, key2 = a 65-byte (uncompressed-looking) key typed secp256k1] auth[ref key1, ref key2]:
		// key2 passes stateless validation (base58) but is no usable key: a proof naming it can never verify
		bad := e.vm(did, 2, es256k)
		bad.PublicKeyBase58 = base58.Encode(append([]byte{0x04}, bytes.Repeat([]byte{0x11}, 64)...))
		d = didtypes.NewDIDDocument(did, didtypes.WithVerificationMethods([]*didtypes.VerificationMethod{e.vm(did, 1, es256k), bad}),
			didtypes.WithAuthentications([]didtypes.VerificationRelationship{ref(1), ref(2)}))
	case "D10": // D1 whose top-level controller names the OTHER DID of the alphabet (the controller's keys never control this DID)
		other := e.DIDs[0]
		if did == other {
			other = e.DIDs[1]
		}
		d = didtypes.NewDIDDocument(did, didtypes.WithVerificationMethods([]*didtypes.VerificationMethod{e.vm(did, 1, es256k)}),
			didtypes.WithAuthentications([]didtypes.VerificationRelationship{ref(1)}), didtypes.WithController(other))
	case "De": // empty id, dedicated authentication method for k1 whose id names `did`
		d = didtypes.DIDDocument{Authentications: []didtypes.VerificationRelationship{didtypes.NewVerificationRelationshipDedicated(*e.vm(did, 1, es256k))}}
	default:
		panic("unknown shape " + shape)
	}
	return &d
}

func (e *didEnv) sign(content *didtypes.DIDDocument, seq uint64, k int) []byte {
	sig, err := e.Keys[k-1].Sign(didSignBytes(content, seq))
	if err != nil {
		panic(err)
	}
	return sig
}

// bulkDIDs: n live filler DIDs whose ids sort before every DID of the alphabet (more than one default page of 100).
func bulkDIDs(e *didEnv, n int) map[string]*didtypes.DIDDocumentWithSeq {
	out := map[string]*didtypes.DIDDocumentWithSeq{}
	for i := 0; i < n; i++ {
		did := fmt.Sprintf("did:panacea:1111111111111111111111111111%04d", i+1000) // '0' is not base58: digits 1-9 only below
		did = strings.NewReplacer("0", "A").Replace(did)
		doc := e.doc("D1", did)
		out[did] = &didtypes.DIDDocumentWithSeq{Document: doc, Sequence: uint64(i % 3)}
	}
	// identifiers at the very top of the base58 alphabet (they sort after every other DID and after "did:panacea:z")
	for _, did := range []string{"did:panacea:" + strings.Repeat("z", 32), "did:panacea:z" + strings.Repeat("y", 43)} {
		out[did] = &didtypes.DIDDocumentWithSeq{Document: e.doc("D1", did), Sequence: 1}
	}
	return out
}

type didVariant struct {
	Bulk     int  // genesis-injected filler DIDs
	Tombs    int  // every Tombs-th filler DID (in store order) is a tombstone
	Prefix   bool // alphabet also has two DIDs one of which is a byte-prefix of the other
	HugeSeq  bool // genesis: d2 already exists (document D1, key k1) at sequence 2^63-1, dp at 2^63+10, dp+m (document D2, key k2) at 9
	ID       string
	Replays  bool // C04: Replay(i) ops
	EmptyID  bool // C04/C05: create with an empty-id document
	Mismatch bool // C11: did field / document id / payload chosen independently
	StrictID bool // model requires document.id == did
	Ctl      []string
	Small    bool // smaller alphabet (used when combined with many extra entries)
}

func (e *didEnv) short(did string) string {
	for i, d := range e.DIDs {
		if d == did {
			return fmt.Sprintf("d%d", i+1)
		}
	}
	switch did {
	case e.Prefix[0]:
		return "dp"
	case e.Prefix[1]:
		return "dp+m"
	case e.Lead:
		return "d+dp"
	}
	return "d?"
}

func didOps(e *didEnv, v didVariant) []explore.Op {
	var ops []explore.Op
	tx := func(relayer *world.Account, msg sdk.Msg) *world.TxSpec {
		return &world.TxSpec{Msgs: []sdk.Msg{msg}, Signers: []*world.Account{relayer}, Fee: aolFee}
	}
	seqOf := func(m any, did string) uint64 {
		if en, ok := m.(*didModel).Entries[did]; ok {
			return en.Seq
		}
		return 0
	}
	create := func(did, docDid, shape string, k int, seq uint64, rel *world.Account) explore.Op {
		doc := e.doc(shape, docDid)
		msg := &didtypes.MsgCreateDIDRequest{Did: did, Document: doc, VerificationMethodId: e.vmID(docDid, k), Signature: e.sign(doc, seq, k), FromAddress: rel.Bech}
		name := fmt.Sprintf("Create(%s,%s(%s),k%d", e.short(did), shape, e.short(docDid), k)
		if seq != 0 {
			name += fmt.Sprintf(",seq=%d", seq)
		}
		name += ",via=" + rel.Name + ")"
		return explore.Op{Name: name, Tx: func(w *world.World, m any) *world.TxSpec { return tx(rel, msg) }}
	}
	// update: proof made when the op is applied, over (signedShape doc, stored seq + dseq)
	update := func(did, docDid, shape, signedShape string, k int, dseq int, rel *world.Account) explore.Op {
		doc := e.doc(shape, docDid)
		signed := doc
		if signedShape != shape {
			signed = e.doc(signedShape, docDid)
		}
		name := fmt.Sprintf("Update(%s,%s(%s),k%d", e.short(did), shape, e.short(docDid), k)
		if dseq != 0 {
			name += fmt.Sprintf(",seq%+d", dseq)
		}
		if signedShape != shape {
			name += ",sigOver=" + signedShape
		}
		name += ",via=" + rel.Name + ")"
		return explore.Op{Name: name, Tx: func(w *world.World, m any) *world.TxSpec {
			seq := uint64(int64(seqOf(m, did)) + int64(dseq))
			if int64(seqOf(m, did))+int64(dseq) < 0 {
				return nil
			}
			msg := &didtypes.MsgUpdateDIDRequest{Did: did, Document: doc, VerificationMethodId: e.vmID(did, k), Signature: e.sign(signed, seq, k), FromAddress: rel.Bech}
			return tx(rel, msg)
		}}
	}
	deact := func(did string, k int, dseq int, rel *world.Account) explore.Op {
		name := fmt.Sprintf("Deactivate(%s,k%d", e.short(did), k)
		if dseq != 0 {
			name += fmt.Sprintf(",seq%+d", dseq)
		}
		name += ",via=" + rel.Name + ")"
		return explore.Op{Name: name, Tx: func(w *world.World, m any) *world.TxSpec {
			if int64(seqOf(m, did))+int64(dseq) < 0 {
				return nil
			}
			seq := uint64(int64(seqOf(m, did)) + int64(dseq))
			msg := &didtypes.MsgDeactivateDIDRequest{Did: did, VerificationMethodId: e.vmID(did, k), Signature: e.sign(&didtypes.DIDDocument{Id: did}, seq, k), FromAddress: rel.Bech}
			return tx(rel, msg)
		}}
	}
	d1, d2 := e.DIDs[0], e.DIDs[1]
	R1, R2 := e.R1, e.R2
	// documents in which one method id occurs twice. The reference resolves an authentication entry the way the method
	// specification does: an embedded method IS the key of that entry; a reference is looked up in verificationMethod.
	// (D7: the embedded key k2 controls, k1 - listed under the same id at top level - does not. D8: both entries hold k1.)
	ops = append(ops,
		update(d1, d1, "D7", "D7", 1, 0, R1),
		explore.Op{Name: "Update(d1,D1(d1),names=key1,signedBy=k2,via=R1)", Tx: func(w *world.World, m any) *world.TxSpec {
			doc := e.doc("D1", d1)
			return tx(R1, &didtypes.MsgUpdateDIDRequest{Did: d1, Document: doc, VerificationMethodId: e.vmID(d1, 1), Signature: e.sign(doc, seqOf(m, d1), 2), FromAddress: R1.Bech})
		}},
		create(d1, d1, "D8", 1, 0, R1),
		update(d1, d1, "D8", "D8", 1, 0, R2),
		// a did field that is a case variant of d1 (another, never-used DID) while the document is about d1
		explore.Op{Name: "Create(did=caseVariant(d1),D1(d1),k1,via=R2)", Tx: func(w *world.World, m any) *world.TxSpec {
			doc := e.doc("D1", d1)
			return tx(R2, &didtypes.MsgCreateDIDRequest{Did: caseVariant(d1), Document: doc, VerificationMethodId: e.vmID(d1, 1), Signature: e.sign(doc, 0, 1), FromAddress: R2.Bech})
		}},
	)
	// D9: a listed authentication method whose key material is unusable, named by a junk proof; D10: a document naming the other
	// DID as its controller, and a proof made with the CONTROLLER's key under the controller's method id and sequence
	ops = append(ops,
		update(d1, d1, "D9", "D9", 1, 0, R1),
		explore.Op{Name: "Update(d1,D1(d1),names=key2,junk-signature,via=R2)", Tx: func(w *world.World, m any) *world.TxSpec {
			return tx(R2, &didtypes.MsgUpdateDIDRequest{Did: d1, Document: e.doc("D1", d1), VerificationMethodId: e.vmID(d1, 2), Signature: []byte{0x30, 0x01, 0x02}, FromAddress: R2.Bech})
		}},
		explore.Op{Name: "Deactivate(d1,names=key2,junk-signature,via=R2)", Tx: func(w *world.World, m any) *world.TxSpec {
			return tx(R2, &didtypes.MsgDeactivateDIDRequest{Did: d1, VerificationMethodId: e.vmID(d1, 2), Signature: []byte{0x30, 0x01, 0x02}, FromAddress: R2.Bech})
		}},
		update(d1, d1, "D10", "D10", 1, 0, R1),
		explore.Op{Name: "Deactivate(d1,vm=d2#key1,k1,seq=seq(d2),via=R2)", Tx: func(w *world.World, m any) *world.TxSpec {
			return tx(R2, &didtypes.MsgDeactivateDIDRequest{Did: d1, VerificationMethodId: e.vmID(d2, 1), Signature: e.sign(&didtypes.DIDDocument{Id: d1}, seqOf(m, d2), 1), FromAddress: R2.Bech})
		}},
		explore.Op{Name: "Update(d1,D5(d1),vm=d2#key1,k1,seq=seq(d1),via=R2)", Tx: func(w *world.World, m any) *world.TxSpec {
			doc := e.doc("D5", d1) // the controller's key and method id, but the SUBJECT's sequence
			return tx(R2, &didtypes.MsgUpdateDIDRequest{Did: d1, Document: doc, VerificationMethodId: e.vmID(d2, 1), Signature: e.sign(doc, seqOf(m, d1), 1), FromAddress: R2.Bech})
		}},
		explore.Op{Name: "Update(d1,D5(d1),vm=d2#key1,k1,seq=seq(d2),via=R2)", Tx: func(w *world.World, m any) *world.TxSpec {
			doc := e.doc("D5", d1)
			return tx(R2, &didtypes.MsgUpdateDIDRequest{Did: d1, Document: doc, VerificationMethodId: e.vmID(d2, 1), Signature: e.sign(doc, seqOf(m, d2), 1), FromAddress: R2.Bech})
		}},
	)
	// a valid 64-byte signature followed by one more byte (the 65-byte [R||S||V] form some wallets emit) is not a valid proof;
	// and an update for d1 whose document id is a letter-case variant of d1 (a different DID) is not an update of d1
	pad := func(sig []byte) []byte { return append(append([]byte{}, sig...), 0x01) }
	ops = append(ops,
		explore.Op{Name: "Deactivate(d1,k1,signature+1byte,via=R1)", Tx: func(w *world.World, m any) *world.TxSpec {
			return tx(R1, &didtypes.MsgDeactivateDIDRequest{Did: d1, VerificationMethodId: e.vmID(d1, 1), Signature: pad(e.sign(&didtypes.DIDDocument{Id: d1}, seqOf(m, d1), 1)), FromAddress: R1.Bech})
		}},
		explore.Op{Name: "Update(d1,D2(d1),k1,signature+1byte,via=R1)", Tx: func(w *world.World, m any) *world.TxSpec {
			doc := e.doc("D2", d1)
			return tx(R1, &didtypes.MsgUpdateDIDRequest{Did: d1, Document: doc, VerificationMethodId: e.vmID(d1, 1), Signature: pad(e.sign(doc, seqOf(m, d1), 1)), FromAddress: R1.Bech})
		}},
		explore.Op{Name: "Update(d1,D1(caseVariant(d1)),k1,via=R2)", Tx: func(w *world.World, m any) *world.TxSpec {
			doc := e.doc("D1", caseVariant(d1))
			return tx(R2, &didtypes.MsgUpdateDIDRequest{Did: d1, Document: doc, VerificationMethodId: e.vmID(d1, 1), Signature: e.sign(doc, seqOf(m, d1), 1), FromAddress: R2.Bech})
		}},
	)
	// a method id whose fragment itself looks like the DID URL of the OTHER DID (d1#d2#key1): it is a method of d1, nothing else
	nested := func(did, other string) string { return did + "#" + other + "#key1" }
	nestedDoc := func(did, other string) *didtypes.DIDDocument {
		vm := didtypes.NewVerificationMethod(nested(did, other), es256k, did, e.pub(1))
		d := didtypes.NewDIDDocument(did, didtypes.WithVerificationMethods([]*didtypes.VerificationMethod{&vm}),
			didtypes.WithAuthentications([]didtypes.VerificationRelationship{didtypes.NewVerificationRelationship(vm.Id)}))
		return &d
	}
	ops = append(ops,
		explore.Op{Name: "Create(d1,doc with method id d1#d2#key1,k1,via=R1)", Tx: func(w *world.World, m any) *world.TxSpec {
			doc := nestedDoc(d1, d2)
			return tx(R1, &didtypes.MsgCreateDIDRequest{Did: d1, Document: doc, VerificationMethodId: nested(d1, d2), Signature: e.sign(doc, 0, 1), FromAddress: R1.Bech})
		}},
		explore.Op{Name: "Update(d1,doc with method id d1#d2#key1,proof by d1#d2#key1,k1,via=R2)", Tx: func(w *world.World, m any) *world.TxSpec {
			doc := nestedDoc(d1, d2)
			doc.Services = []*didtypes.Service{{Id: "svc", Type: "T", ServiceEndpoint: "https://example.org/n"}}
			return tx(R2, &didtypes.MsgUpdateDIDRequest{Did: d1, Document: doc, VerificationMethodId: nested(d1, d2), Signature: e.sign(doc, seqOf(m, d1), 1), FromAddress: R2.Bech})
		}},
	)
	// ... and a deactivation proven under that method id deactivates d1 (the DID the message names), nothing else
	ops = append(ops, explore.Op{Name: "Deactivate(d1,vm=d1#d2#key1,k1,via=R1)", Tx: func(w *world.World, m any) *world.TxSpec {
		return tx(R1, &didtypes.MsgDeactivateDIDRequest{Did: d1, VerificationMethodId: nested(d1, d2), Signature: e.sign(&didtypes.DIDDocument{Id: d1}, seqOf(m, d1), 1), FromAddress: R1.Bech})
	}})
	// no verification method named at all: a proof must name the authentication method it was made with
	ops = append(ops,
		explore.Op{Name: "Deactivate(d1,vm=empty,k1,via=R2)", Tx: func(w *world.World, m any) *world.TxSpec {
			return tx(R2, &didtypes.MsgDeactivateDIDRequest{Did: d1, VerificationMethodId: "", Signature: e.sign(&didtypes.DIDDocument{Id: d1}, seqOf(m, d1), 1), FromAddress: R2.Bech})
		}},
		explore.Op{Name: "Update(d1,D2(d1),vm=empty,signedBy=k3,via=R2)", Tx: func(w *world.World, m any) *world.TxSpec {
			doc := e.doc("D2", d1)
			return tx(R2, &didtypes.MsgUpdateDIDRequest{Did: d1, Document: doc, VerificationMethodId: "", Signature: e.sign(doc, seqOf(m, d1), 3), FromAddress: R2.Bech})
		}},
	)
	// the pre-v2 spelling with a network segment (did:panacea:mainnet:<id>) is not a DID of this chain
	ops = append(ops, explore.Op{Name: "Create(did:panacea:mainnet:<id of d1>,D1(same),k1,via=R1)", Tx: func(w *world.World, m any) *world.TxSpec {
		legacy := "did:panacea:mainnet:" + strings.TrimPrefix(d1, "did:panacea:")
		doc := e.doc("D1", legacy)
		return tx(R1, &didtypes.MsgCreateDIDRequest{Did: legacy, Document: doc, VerificationMethodId: e.vmID(legacy, 1), Signature: e.sign(doc, 0, 1), FromAddress: R1.Bech})
	}})
	if v.Prefix {
		// two valid DIDs one of which is a strict byte-prefix of the other (ids of 43 and 44 characters)
		dp, dpm := e.Prefix[0], e.Prefix[1]
		ops = append(ops,
			create(dp, dp, "D1", 1, 0, R1),
			create(dpm, dpm, "D2", 2, 0, R2), // D2: key2 is the authentication key
			update(dp, dp, "D5", "D5", 1, 0, R1),
			update(dpm, dpm, "D2", "D2", 2, 0, R2),
			deact(dp, 1, 0, R1),
			// the did field is a byte-prefix of the document id (and the other way round): a document about ANOTHER DID
			create(dp, dpm, "D2", 2, 0, R1), // an observed create of dp+m re-submitted under dp
			create(dpm, dp, "D1", 1, 0, R2),
			// ... and the did field / document id differ by one leading letter of the identifier
			create(e.Lead, e.Lead, "D2", 2, 0, R2),
			create(dp, e.Lead, "D2", 2, 0, R1), // the observed create of d+dp re-submitted under dp
			create(e.Lead, dp, "D1", 1, 0, R2),
			explore.Op{Name: "Update(dp,D1(dp+m) with dp's key,proof by dp#key1,k1,via=R2)", Tx: func(w *world.World, m any) *world.TxSpec {
				doc := e.doc("D1", dpm)
				doc.VerificationMethods[0].PublicKeyBase58 = e.vm(dp, 1, es256k).PublicKeyBase58
				return tx(R2, &didtypes.MsgUpdateDIDRequest{Did: dp, Document: doc, VerificationMethodId: e.vmID(dp, 1), Signature: e.sign(doc, seqOf(m, dp), 1), FromAddress: R2.Bech})
			}},
		)
	}
	// proofs that NAME a listed authentication key but are made with another key (or are junk): must never be accepted,
	// whatever the type of the named key
	ops = append(ops,
		create(d1, d1, "D6", 1, 0, R1), // deprecated-but-valid 2018 key type
		explore.Op{Name: "Update(d1,D2(d1),names=key1,signedBy=k3,via=R2)", Tx: func(w *world.World, m any) *world.TxSpec {
			doc := e.doc("D2", d1)
			return tx(R2, &didtypes.MsgUpdateDIDRequest{Did: d1, Document: doc, VerificationMethodId: e.vmID(d1, 1), Signature: e.sign(doc, seqOf(m, d1), 3), FromAddress: R2.Bech})
		}},
		explore.Op{Name: "Deactivate(d1,names=key1,junk-signature,via=R2)", Tx: func(w *world.World, m any) *world.TxSpec {
			return tx(R2, &didtypes.MsgDeactivateDIDRequest{Did: d1, VerificationMethodId: e.vmID(d1, 1), Signature: []byte{0x30, 0x01, 0x02}, FromAddress: R2.Bech})
		}},
		explore.Op{Name: "Create(d2,D6(d2),names=key1,signedBy=k3,via=R2)", Tx: func(w *world.World, m any) *world.TxSpec {
			doc := e.doc("D6", d2)
			return tx(R2, &didtypes.MsgCreateDIDRequest{Did: d2, Document: doc, VerificationMethodId: e.vmID(d2, 1), Signature: e.sign(doc, 0, 3), FromAddress: R2.Bech})
		}},
	)
	ops = append(ops,
		create(d1, d1, "D1", 1, 0, R1),
		create(d1, d1, "D2", 2, 0, R1),
		create(d1, d1, "D3", 2, 0, R2),
		create(d2, d2, "D1", 1, 0, R1),
		update(d1, d1, "D2", "D2", 1, 0, R1),
		update(d1, d1, "D2", "D2", 2, 0, R1),
		update(d1, d1, "D1", "D1", 1, 0, R2),
		update(d1, d1, "D1", "D1", 2, 0, R1),
		update(d1, d1, "D2", "D2", 1, +1, R1),
		update(d1, d1, "D2", "D2", 1, -1, R1),
		deact(d1, 1, 0, R1),
		deact(d1, 2, 0, R2),
		deact(d2, 1, 0, R1),
		deact(d1, 1, -1, R2), // a deactivation signed for the previous sequence (withheld, then submitted late)
	)
	if !v.Small {
		ops = append(ops,
			create(d1, d1, "D1", 2, 0, R1), // k2 not in document
			create(d1, d1, "D2", 1, 0, R1), // k1 only a verification method
			create(d1, d1, "D3", 1, 0, R1), // k1 only under assertionMethod
			create(d1, d1, "D4", 1, 0, R1), // ed25519-typed key
			create(d1, d1, "D5", 1, 0, R1),
			create(d1, d1, "D1", 1, 1, R1), // proof over sequence 1
			update(d1, d1, "D3", "D3", 1, 0, R1),
			update(d1, d1, "D3", "D3", 2, 0, R1),
			update(d1, d1, "D5", "D5", 1, 0, R1),
			update(d1, d1, "D4", "D4", 1, 0, R1),
			update(d1, d1, "D2", "D2", 3, 0, R1), // k3 never listed
			update(d1, d1, "D2", "D1", 1, 0, R1), // signature over different content
			update(d2, d2, "D2", "D2", 1, 0, R2),
			deact(d1, 3, 0, R1),
			deact(d1, 1, +1, R1),
		)
	}
	// rollback routes: an accepted-looking message followed by a failing one in the same transaction, and transactions
	// that are only simulated / checked on the node
	failing := &didtypes.MsgDeactivateDIDRequest{Did: didtypes.NewDID([]byte("never-created")), VerificationMethodId: "x", Signature: []byte{1}, FromAddress: R1.Bech}
	ops = append(ops,
		explore.Op{Name: "Tx[Update(d1,D2(d1),k1),failing]", Rollback: true, Tx: func(w *world.World, m any) *world.TxSpec {
			doc := e.doc("D2", d1)
			up := &didtypes.MsgUpdateDIDRequest{Did: d1, Document: doc, VerificationMethodId: e.vmID(d1, 1), Signature: e.sign(doc, seqOf(m, d1), 1), FromAddress: R1.Bech}
			return &world.TxSpec{Msgs: []sdk.Msg{up, failing}, Signers: []*world.Account{R1}, Fee: aolFee}
		}},
		explore.Op{Name: "Tx[Deactivate(d1,k1),failing]", Rollback: true, Tx: func(w *world.World, m any) *world.TxSpec {
			de := &didtypes.MsgDeactivateDIDRequest{Did: d1, VerificationMethodId: e.vmID(d1, 1), Signature: e.sign(&didtypes.DIDDocument{Id: d1}, seqOf(m, d1), 1), FromAddress: R1.Bech}
			return &world.TxSpec{Msgs: []sdk.Msg{de, failing}, Signers: []*world.Account{R1}, Fee: aolFee}
		}},
		explore.Op{Name: "Simulate(Update(d1,D2(d1),k1))", Aux: "simulate", Rollback: true, Tx: func(w *world.World, m any) *world.TxSpec {
			doc := e.doc("D2", d1)
			up := &didtypes.MsgUpdateDIDRequest{Did: d1, Document: doc, VerificationMethodId: e.vmID(d1, 1), Signature: e.sign(doc, seqOf(m, d1), 1), FromAddress: R1.Bech}
			return tx(R1, up)
		}},
		explore.Op{Name: "Simulate(Create(d1,D1(d1),k1))", Aux: "simulate", Rollback: true, Tx: func(w *world.World, m any) *world.TxSpec {
			doc := e.doc("D1", d1)
			return tx(R1, &didtypes.MsgCreateDIDRequest{Did: d1, Document: doc, VerificationMethodId: e.vmID(d1, 1), Signature: e.sign(doc, 0, 1), FromAddress: R1.Bech})
		}},
		explore.Op{Name: "CheckTx(Deactivate(d1,k1))", Aux: "checktx", Rollback: true, Tx: func(w *world.World, m any) *world.TxSpec {
			return tx(R1, &didtypes.MsgDeactivateDIDRequest{Did: d1, VerificationMethodId: e.vmID(d1, 1), Signature: e.sign(&didtypes.DIDDocument{Id: d1}, seqOf(m, d1), 1), FromAddress: R1.Bech})
		}},
	)
	if v.EmptyID {
		ops = append(ops, create(d1, d1, "De", 1, 0, R1))
		// empty-id document whose did field is d1: the document handed to the chain has Id ""
	}
	if v.Mismatch {
		// a did field that differs from the document id only in letter case (base58 is case-sensitive: another DID)
		d1c := caseVariant(d1)
		ops = append(ops,
			explore.Op{Name: "Create(did=caseVariant(d1),D1(d1),k1,via=R1)", Tx: func(w *world.World, m any) *world.TxSpec {
				doc := e.doc("D1", d1)
				return tx(R1, &didtypes.MsgCreateDIDRequest{Did: d1c, Document: doc, VerificationMethodId: e.vmID(d1, 1), Signature: e.sign(doc, 0, 1), FromAddress: R1.Bech})
			}},
			explore.Op{Name: "Update(d1,D1(caseVariant(d1)),k1,via=R1)", Tx: func(w *world.World, m any) *world.TxSpec {
				doc := e.doc("D1", d1c)
				return tx(R1, &didtypes.MsgUpdateDIDRequest{Did: d1, Document: doc, VerificationMethodId: e.vmID(d1, 1), Signature: e.sign(doc, seqOf(m, d1), 1), FromAddress: R1.Bech})
			}},
		)
		ops = append(ops,
			create(d2, d1, "D1", 1, 0, R1), // did field d2, document (and proof) about d1
			create(d1, d2, "D1", 1, 0, R1),
			explore.Op{Name: "Update(d2,D2(d1),k1,via=R1)", Tx: func(w *world.World, m any) *world.TxSpec {
				doc := e.doc("D2", d1)
				seq := seqOf(m, d2)
				return tx(R1, &didtypes.MsgUpdateDIDRequest{Did: d2, Document: doc, VerificationMethodId: e.vmID(d2, 1), Signature: e.sign(doc, seq, 1), FromAddress: R1.Bech})
			}},
			explore.Op{Name: "Exec(R1,Create(d2,D1(d1),k1))", Tx: func(w *world.World, m any) *world.TxSpec {
				doc := e.doc("D1", d1)
				inner := &didtypes.MsgCreateDIDRequest{Did: d2, Document: doc, VerificationMethodId: e.vmID(d1, 1), Signature: e.sign(doc, 0, 1), FromAddress: R1.Bech}
				ex := authz.NewMsgExec(R1.Addr, []sdk.Msg{inner})
				return tx(R1, &ex)
			}},
		)
		// an observed accepted message re-submitted with only the did field changed
		for i := 0; i < 2; i++ {
			i := i
			ops = append(ops, explore.Op{Name: fmt.Sprintf("Replay(#%d,did:=other,via=R2)", i), Tx: func(w *world.World, m any) *world.TxSpec {
				dm := m.(*didModel)
				if i >= len(dm.Accepted) {
					return nil
				}
				other := func(d string) string {
					if d == d1 {
						return d2
					}
					return d1
				}
				switch x := dm.Accepted[i].Msg.(type) {
				case *didtypes.MsgCreateDIDRequest:
					c := *x
					c.Did, c.FromAddress = other(x.Did), R2.Bech
					return tx(R2, &c)
				case *didtypes.MsgUpdateDIDRequest:
					c := *x
					c.Did, c.FromAddress = other(x.Did), R2.Bech
					return tx(R2, &c)
				case *didtypes.MsgDeactivateDIDRequest:
					c := *x
					c.Did, c.FromAddress = other(x.Did), R2.Bech
					return tx(R2, &c)
				}
				return nil
			}})
		}
	}
	if v.Replays {
		for i := 0; i < 3; i++ {
			i := i
			ops = append(ops, explore.Op{Name: fmt.Sprintf("Replay(#%d,via=R2)", i), Tx: func(w *world.World, m any) *world.TxSpec {
				dm := m.(*didModel)
				if i >= len(dm.Accepted) {
					return nil
				}
				switch x := dm.Accepted[i].Msg.(type) {
				case *didtypes.MsgCreateDIDRequest:
					c := *x
					c.FromAddress = R2.Bech
					return tx(R2, &c)
				case *didtypes.MsgUpdateDIDRequest:
					c := *x
					c.FromAddress = R2.Bech
					return tx(R2, &c)
				case *didtypes.MsgDeactivateDIDRequest:
					c := *x
					c.FromAddress = R2.Bech
					return tx(R2, &c)
				}
				return nil
			}})
		}
	}
	ops = append(ops, ctlOps(v.Ctl...)...)
	return ops
}

// ---------------------------------------------------------------------------------------------
// System
// ---------------------------------------------------------------------------------------------

func didSystem(v didVariant) *explore.System {
	env := newDidEnv()
	sys := &explore.System{
		ID:     v.ID,
		Stores: []string{"did"},
		Ops:    didOps(env, v),
		Clone:  func(m any) any { return m.(*didModel).clone() },
		Fresh: func() (*world.World, any) {
			opts := world.Options{Accounts: []*world.Account{env.R1, env.R2}}
			m := newDidModel()
			if v.HugeSeq {
				fill := map[string]*didtypes.DIDDocumentWithSeq{
					env.DIDs[1]:   {Document: env.doc("D1", env.DIDs[1]), Sequence: 1<<63 - 1},
					env.Prefix[0]: {Document: env.doc("D1", env.Prefix[0]), Sequence: 1<<63 + 10},
					// ... and one at sequence 9: its next accepted change makes the sequence one decimal digit longer
					env.Prefix[1]: {Document: env.doc("D2", env.Prefix[1]), Sequence: 9},
				}
				opts.Mutate = func(gs map[string]json.RawMessage, cdc codec.Codec) {
					gs["did"] = cdc.MustMarshalJSON(&didtypes.GenesisState{Documents: fill})
				}
				for did, d := range fill {
					m.Entries[did] = &didEntry{Doc: d.Document, Seq: d.Sequence}
				}
			}
			if v.Bulk > 0 {
				fill := bulkDIDs(env, v.Bulk)
				if v.Tombs > 0 {
					for i, did := range sortedKeys(fill) {
						if i%v.Tombs == v.Tombs-1 || i == len(fill)-1 { // (the last one, a 'z…' identifier, is always a tombstone)
							fill[did] = &didtypes.DIDDocumentWithSeq{Document: &didtypes.DIDDocument{}, Sequence: uint64(2 + i%3)}
						}
					}
				}
				opts.Mutate = func(gs map[string]json.RawMessage, cdc codec.Codec) {
					gs["did"] = cdc.MustMarshalJSON(&didtypes.GenesisState{Documents: fill})
				}
				for did, d := range fill {
					if d.Document.Id == "" {
						m.Entries[did] = &didEntry{Tomb: true, Seq: d.Sequence}
						continue
					}
					m.Entries[did] = &didEntry{Doc: d.Document, Seq: d.Sequence}
				}
			}
			return world.New(opts), m
		},
	}
	withHistory := v.Replays || v.Mismatch
	sys.Extra = func(m any) []byte {
		dm := m.(*didModel)
		h := sha256.New()
		for _, k := range sortedKeys(dm.Entries) {
			e := dm.Entries[k]
			var doc []byte
			if e.Doc != nil {
				doc, _ = e.Doc.Marshal()
			}
			fmt.Fprintf(h, "E%q=%d/%v/%x;", k, e.Seq, e.Tomb, doc)
		}
		if withHistory {
			for _, a := range dm.Accepted {
				h.Write([]byte(a.Hash))
			}
		}
		return h.Sum(nil)
	}
	sys.OnStep = func(s *explore.Step) {
		m := s.M.(*didModel)
		isReplay := strings.HasPrefix(s.Op.Name, "Replay(#") && !strings.Contains(s.Op.Name, "did:=")
		expect, why := false, "signatures do not cover GetSigners"
		if signersCover(s.Spec.Msgs, s.Spec.Signers) {
			// all-or-nothing over the transaction's messages
			scratch := m.clone()
			expect, why = true, ""
			for _, msg := range s.Spec.Msgs {
				if ok, w := didExpect(scratch, msg, true); !ok {
					expect, why = false, w
					break
				}
			}
			if expect {
				for _, msg := range s.Spec.Msgs {
					didExpect(m, msg, true)
				}
			}
		}
		got := s.Res.Code == 0
		post := s.W.Dump("did")
		if isReplay && got {
			s.Fail("replay-accepted", "replay-accepted:"+replayedKind(s), "a message accepted earlier on this path was accepted again when re-submitted by another relayer (log: %s)", s.Res.Log)
			return
		}
		if got != expect {
			s.Fail("accept-mismatch", fmt.Sprintf("accept-mismatch:%s:impl=%v,model=%v(%s)", s.Op.Name, got, expect, why),
				"reference registry expects accept=%v (%s); implementation returned code=%d codespace=%s log=%s", expect, why, s.Res.Code, s.Res.Codespace, firstLineOf(s.Res.Log))
			return
		}
		if !got && !world.EqualKVs(s.Pre["did"], post) {
			s.Fail("rejected-changed-state", "rejected-changed-state:"+s.Op.Name, "rejected message changed the did store: %s", world.DiffKVs(s.Pre["did"], post))
		}
	}
	sys.OnState = func(s *explore.State) { didCheckState(s, s.M.(*didModel), env) }
	sys.Outcome = func(s *explore.Step) string {
		cls := strings.SplitN(s.Op.Name, "(", 2)[0]
		if s.Res.Code == 0 {
			return cls + "/accepted"
		}
		return fmt.Sprintf("%s/rejected/%s/%d", cls, s.Res.Codespace, s.Res.Code)
	}
	return sys
}

func replayedKind(s *explore.Step) string {
	switch s.Spec.Msgs[0].(type) {
	case *didtypes.MsgCreateDIDRequest:
		return "create"
	case *didtypes.MsgUpdateDIDRequest:
		return "update"
	case *didtypes.MsgDeactivateDIDRequest:
		return "deactivate"
	}
	return "?"
}

func firstLineOf(s string) string {
	if i := strings.IndexByte(s, '\n'); i >= 0 {
		s = s[:i]
	}
	if len(s) > 300 {
		s = s[:300]
	}
	return s
}

// didCheckState: the store equals the reference registry; the read operation agrees; documents are about their key.
func didCheckState(s *explore.State, m *didModel, env *didEnv) {
	ctx := sdk.WrapSDKContext(s.W.Ctx())
	got := s.W.DumpPrefix("did", []byte{0x00})
	seen := map[string]bool{}
	for _, kv := range got {
		did := string(kv.K[1:])
		seen[did] = true
		// value: uvarint length prefix + proto
		l, n := binary.Uvarint(kv.V)
		if n <= 0 || int(l) != len(kv.V)-n {
			s.Fail("did-store", "did-store:encoding", "entry %q is not length-prefixed proto", did)
			continue
		}
		var dws didtypes.DIDDocumentWithSeq
		if err := dws.Unmarshal(kv.V[n:]); err != nil {
			s.Fail("did-store", "did-store:decode", "entry %q undecodable: %v", did, err)
			continue
		}
		e, ok := m.Entries[did]
		if !ok {
			s.Fail("did-store", "did-store:extra", "store holds DID %q which the reference registry never accepted", did)
			continue
		}
		if dws.Sequence != e.Seq {
			s.Fail("sequence", "sequence:store", "DID %s stored sequence %d, reference %d", env.short(did), dws.Sequence, e.Seq)
		}
		if e.Tomb {
			if dws.Document == nil || dws.Document.Id != "" || dws.Sequence == 0 {
				s.Fail("tombstone", "tombstone:store", "DID %s should be a tombstone (empty document, sequence != 0), store has id=%q seq=%d", env.short(did), dws.Document.GetId(), dws.Sequence)
			}
			continue
		}
		if dws.Document == nil {
			s.Fail("did-store", "did-store:nil-doc", "DID %s stored without document", env.short(did))
			continue
		}
		wantBz, _ := e.Doc.Marshal()
		gotBz, _ := dws.Document.Marshal()
		if !bytes.Equal(wantBz, gotBz) {
			s.Fail("did-store", "did-store:doc", "DID %s stored document differs from the last accepted one", env.short(did))
		}
		// C11: a DID resolves to a document about itself
		if dws.Document.Id != did {
			s.Fail("doc-id-mismatch", fmt.Sprintf("doc-id-mismatch:key=%s,doc.id=%s", env.short(did), idLabel(env, dws.Document.Id)), "registry holds under %s a document whose id is %q", did, dws.Document.Id)
		}
	}
	for did := range m.Entries {
		if !seen[did] {
			s.Fail("did-store", "did-store:missing", "reference registry has %s, store does not", env.short(did))
		}
	}
	// read operation
	dids := append([]string{}, env.DIDs...)
	dids = append(dids, env.Prefix[0], env.Prefix[1])
	for _, did := range dids {
		res, err := s.W.App.DidKeeper.DID(ctx, &didtypes.QueryDIDRequest{DidBase64: base64.StdEncoding.EncodeToString([]byte(did))})
		e, ok := m.Entries[did]
		switch {
		case !ok:
			if err == nil || !strings.Contains(err.Error(), "DID not found") {
				s.Fail("query", "query:absent", "Query/DID(%s) for a DID never created: res=%v err=%v", env.short(did), res, err)
			}
		case e.Tomb:
			if err == nil || !strings.Contains(err.Error(), "DID deactivated") {
				s.Fail("tombstone", "tombstone:query", "Query/DID(%s) after deactivation: res=%v err=%v (want NotFound: DID deactivated)", env.short(did), res, err)
			}
		default:
			if err != nil {
				s.Fail("query", "query:active-err", "Query/DID(%s): %v", env.short(did), err)
				continue
			}
			if res.DidDocumentWithSeq.Sequence != e.Seq {
				s.Fail("sequence", "sequence:query", "Query/DID(%s).sequence=%d, reference %d", env.short(did), res.DidDocumentWithSeq.Sequence, e.Seq)
			}
			if res.DidDocumentWithSeq.Document.GetId() != did {
				s.Fail("doc-id-mismatch", fmt.Sprintf("doc-id-mismatch:query=%s,doc.id=%s", env.short(did), idLabel(env, res.DidDocumentWithSeq.Document.GetId())), "Query/DID(%s) returned a document with id %q", did, res.DidDocumentWithSeq.Document.GetId())
			}
		}
	}
}

func idLabel(env *didEnv, id string) string {
	if id == "" {
		return "empty"
	}
	return env.short(id)
}

// ---------------------------------------------------------------------------------------------
// Entry points
// ---------------------------------------------------------------------------------------------

var didAssumptions = []string{
	"alphabet: 2 DIDs, 3 secp256k1 DID keys, document shapes D1..D5 (+ empty-id / foreign-id documents where named), relayers R1/R2 that never own a DID key",
	"document shapes D1-D10 (listed in the source): incl. an authentication method with unusable key material (D9) and a top-level controller naming the other DID (D10); duplicate verification-method ids occur in two shapes only: D7 (embedded authentication method sharing its id with a top-level method of another key: the embedded key controls) and D8 (the same key listed twice under one id)",
	"reference verdict: entry state + independent resolution of authentication keys + secp256k1 verification over proto(DataWithSeq{proto(content), seq})",
}

func C03(t Tier) int {
	run := report.NewRun("C03", t.Name, "model_checking", "E1+E2")
	sys := didSystem(didVariant{ID: "C03", Ctl: []string{"NB", "RS", "XI"}})
	dl := deadline(t, 120*time.Second, 15*time.Minute)
	bounds := []explore.Bounds{{Depth: 4, V: 1, Deadline: dl}, {Depth: 5, V: 1, Deadline: dl}}
	if t.Thorough {
		bounds = []explore.Bounds{{Depth: 5, V: 1, Deadline: dl}, {Depth: 5, V: 2, Deadline: dl}, {Depth: 6, V: 2, Deadline: dl}, {Depth: 7, V: 2, Deadline: dl}}
	}
	RunGraph(run, sys, bounds, 6)
	run.Assumptions = didAssumptions
	return run.Finish()
}

func C04(t Tier) int {
	run := report.NewRun("C04", t.Name, "model_checking", "E1+E2")
	sys := didSystem(didVariant{ID: "C04", Replays: true, EmptyID: true, Small: true, Ctl: []string{"NB", "RS", "XI"}})
	dl := deadline(t, 120*time.Second, 15*time.Minute)
	bounds := []explore.Bounds{{Depth: 3, V: 1, Deadline: dl}, {Depth: 4, V: 1, Deadline: dl}} // depth 5 (about 4 minutes with the replay entries) is left to the thorough tier
	if t.Thorough {
		bounds = []explore.Bounds{{Depth: 5, V: 1, Deadline: dl}, {Depth: 6, V: 1, Deadline: dl}, {Depth: 6, V: 2, Deadline: dl}, {Depth: 7, V: 2, Deadline: dl}}
	}
	RunGraph(run, sys, bounds, 6)
	// second initial state: DIDs that already stand at sequences around 2^63 (genesis): the counter still grows by exactly one
	huge := didSystem(didVariant{ID: "C04/huge-sequence", HugeSeq: true, Replays: true, Prefix: true, Small: true, Ctl: []string{"XI"}})
	RunGraph(run, huge, []explore.Bounds{{Depth: 3, V: 1, Deadline: deadline(t, 45*time.Second, 4*time.Minute)}}, 4)
	run.Assumptions = append(didAssumptions, "Replay(#i): the i-th accepted message of the path (multiset order) re-submitted with identical inner bytes by the other relayer; canonical state includes the multiset of accepted messages")
	return run.Finish()
}

func C05(t Tier) int {
	run := report.NewRun("C05", t.Name, "model_checking", "E1+E2")
	sys := didSystem(didVariant{ID: "C05", EmptyID: true, Ctl: []string{"NB", "RS", "XI", "UG"}})
	dl := deadline(t, 120*time.Second, 15*time.Minute)
	bounds := []explore.Bounds{{Depth: 3, V: 2, Deadline: dl}, {Depth: 4, V: 2, Deadline: dl}}
	if t.Thorough {
		bounds = []explore.Bounds{{Depth: 4, V: 2, Deadline: dl}, {Depth: 5, V: 2, Deadline: dl}, {Depth: 5, V: 3, Deadline: dl}, {Depth: 6, V: 3, Deadline: dl}}
	}
	RunGraph(run, sys, bounds, 6)
	// second initial state: 120 live DIDs already exist (more than one default page of any paginated listing), all sorting
	// before d1/d2, so that a tombstone written now is the last entry of the store when genesis is exported
	bulk := didSystem(didVariant{ID: "C05/bulk", Bulk: 120, Tombs: 9, Small: true, Ctl: []string{"XI", "RS"}})
	RunGraph(run, bulk, []explore.Bounds{{Depth: 3, V: 1, Deadline: deadline(t, 45*time.Second, 4*time.Minute)}}, 4)
	run.Assumptions = append(didAssumptions, "V>=2 places a restart and an export/import after every deactivation reachable within the depth bound",
		"a second run starts from a genesis with 120 DIDs (every 9th a tombstone) and explores depth 3 incl. one export/import or restart")
	return run.Finish()
}

func C11(t Tier) int {
	run := report.NewRun("C11", t.Name, "model_checking", "E1+E2")
	sys := didSystem(didVariant{ID: "C11", Mismatch: true, EmptyID: true, StrictID: true, Small: true, Prefix: true, Ctl: []string{"NB", "XI"}})
	dl := deadline(t, 120*time.Second, 15*time.Minute)
	bounds := []explore.Bounds{{Depth: 3, V: 1, Deadline: dl}, {Depth: 4, V: 1, Deadline: dl}} // depth 5 is left to the thorough tier
	if t.Thorough {
		bounds = []explore.Bounds{{Depth: 5, V: 1, Deadline: dl}, {Depth: 6, V: 1, Deadline: dl}, {Depth: 6, V: 2, Deadline: dl}, {Depth: 7, V: 2, Deadline: dl}}
	}
	RunGraph(run, sys, bounds, 6)
	// second initial state: a registry that already holds several tombstones between live DIDs (genesis), so that the
	// listings / exports that walk the whole registry meet more than one empty-id entry
	tombs := didSystem(didVariant{ID: "C11/tombstones", Bulk: 12, Tombs: 4, Mismatch: true, StrictID: true, Small: true, Ctl: []string{"XI", "NB"}})
	RunGraph(run, tombs, []explore.Bounds{{Depth: 2, V: 1, Deadline: deadline(t, 45*time.Second, 4*time.Minute)}}, 4)
	run.Assumptions = append(didAssumptions, "did field, document id and signed payload are chosen independently in the Create/Update/Exec/Replay(did:=other) entries",
		"a second run starts from a genesis with 9 live DIDs and 3 tombstones interleaved in store order (depth 2 + one export/import)")
	return run.Finish()
}

// caseVariant flips the case of the first letter of the method-specific id whose other case is also a base58 character.
func caseVariant(did string) string {
	const p = "did:panacea:"
	b := []byte(did)
	for i := len(p); i < len(b); i++ {
		c := b[i]
		var o byte
		switch {
		case c >= 'a' && c <= 'z':
			o = c - 32
		case c >= 'A' && c <= 'Z':
			o = c + 32
		default:
			continue
		}
		if strings.IndexByte(b58, o) >= 0 {
			b[i] = o
			return string(b)
		}
	}
	panic("no case variant")
}
