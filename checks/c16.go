package checks

import (
	"bytes"
	"fmt"
	"sort"
	"strings"

	sdk "github.com/cosmos/cosmos-sdk/types"
	gogoproto "github.com/cosmos/gogoproto/proto"
	aoltypes "github.com/medibloc/panacea-core/v2/x/aol/types"
	didtypes "github.com/medibloc/panacea-core/v2/x/did/types"
	pnfttypes "github.com/medibloc/panacea-core/v2/x/pnft/types"

	"verif/engine/report"
	"verif/engine/world"
)

// populated builds a world whose custom modules are all non-empty: topic (A,a) with writer W and one record,
// DID d1 (document D1, key k1), denom d owned by A with token t.
func populated(e *domEnv, extra ...*world.Account) *world.World {
	accs := []*world.Account{e.A, e.B, e.W, e.F}
	accs = append(accs, extra...)
	w := world.New(world.Options{Accounts: accs})
	must := func(spec world.TxSpec) {
		res := w.Send(spec)
		if res.Code != 0 {
			panic("populated: setup tx failed: " + res.Log)
		}
	}
	s := func(a ...*world.Account) []*world.Account { return a }
	must(world.TxSpec{Msgs: []sdk.Msg{aoltypes.NewMsgCreateTopic("a", "desc", e.A.Bech)}, Signers: s(e.A)})
	must(world.TxSpec{Msgs: []sdk.Msg{aoltypes.NewMsgAddWriter("a", "w", "", e.W.Bech, e.A.Bech)}, Signers: s(e.A)})
	must(world.TxSpec{Msgs: []sdk.Msg{aoltypes.NewMsgAddRecordRequest("a", []byte("k"), []byte("v"), e.W.Bech, e.A.Bech, "")}, Signers: s(e.W)})
	k := e.DidKey
	doc := k.doc("D1", e.Did)
	must(world.TxSpec{Msgs: []sdk.Msg{&didtypes.MsgCreateDIDRequest{Did: e.Did, Document: doc, VerificationMethodId: k.vmID(e.Did, 1), Signature: k.sign(doc, 0, 1), FromAddress: e.A.Bech}}, Signers: s(e.A)})
	must(world.TxSpec{Msgs: []sdk.Msg{pnfttypes.NewMsgCreateDenomRequest("d", "SYM", "name", "", "", "", e.A.Bech, "")}, Signers: s(e.A)})
	must(world.TxSpec{Msgs: []sdk.Msg{pnfttypes.NewMsgMintPNFTRequest("d", "t", "tok", "", "", "", e.A.Bech, "")}, Signers: s(e.A)})
	return w
}

var customStores = []string{"aol", "did", "pnft"}

func dumpCustom(w *world.World) map[string][]world.KV {
	m := map[string][]world.KV{}
	for _, s := range customStores {
		m[s] = w.Dump(s)
	}
	return m
}

func sameCustom(a, b map[string][]world.KV) string {
	for _, s := range customStores {
		if !world.EqualKVs(a[s], b[s]) {
			return s + ": " + world.DiffKVs(a[s], b[s])
		}
	}
	return ""
}

// roundTrip serialises the message and decodes it again (the property speaks about bytes that decode as a message).
func roundTrip(d *msgDom, m sdk.Msg) (sdk.Msg, bool) {
	bz, err := gogoproto.Marshal(m)
	if err != nil {
		return nil, false
	}
	out := d.New()
	if err := gogoproto.Unmarshal(bz, out); err != nil {
		return nil, false
	}
	return out, true
}

type mismatch struct {
	dom    string
	dir    string
	labels []string
	odd    int
	detail string
}

func C16(t Tier) int {
	run := report.NewRun("C16", t.Name, "exploration", "E3+E1")
	e := newDomEnv()
	doms := allDomains(e, t.Thorough)
	maxOdd := 3
	deliverOdd := 2
	if t.Thorough {
		maxOdd = 4
	}
	evals, accepted, boundary, delivered, undecodable := 0, 0, 0, 0, 0
	var mm []mismatch
	var samples []any
	w := populated(e)
	base := dumpCustom(w)
	perDom := map[string]int{}
	for _, d := range doms {
		mo := maxOdd
		if d.size() <= 200000 {
			mo = -1 // full Cartesian product
		}
		n := d.product(mo, func(m0 sdk.Msg, labels []string, odd int) {
			m, ok := roundTrip(d, m0)
			if !ok {
				undecodable++
				return
			}
			evals++
			want := d.Ref(m)
			var err error
			if p := guard(func() { err = m.ValidateBasic() }); p != "" {
				mm = append(mm, mismatch{d.Name, "panic", labels, odd, "ValidateBasic panicked: " + firstLineOf(p)})
				return
			}
			got := err == nil
			if got {
				accepted++
			}
			if odd <= 1 {
				boundary++
			}
			if got != want {
				dir := "accepts-out-of-limits"
				if want {
					dir = "rejects-within-limits"
				}
				mm = append(mm, mismatch{d.Name, dir, labels, odd, fmt.Sprintf("ValidateBasic err=%v, reference accepts=%v", err, want)})
			}
			if len(samples) < 6 && odd == 2 && evals%7 == 0 {
				samples = append(samples, map[string]any{"type": d.Name, "non_default_fields": labels, "reference_accepts": want, "validate_basic_accepts": got})
			}
			// E1: a reference-rejected message, correctly signed by the actor it names, must be refused and store nothing
			if !want && odd <= deliverOdd {
				delivered++
				discard := w.Fork()
				res := w.Send(world.TxSpec{Msgs: []sdk.Msg{m}, Signers: d.Signers(e), Fee: aolFee})
				after := dumpCustom(w)
				discard()
				if res.Code == 0 {
					mm = append(mm, mismatch{d.Name, "delivered-out-of-limits", labels, odd, "a message outside the published limits was delivered successfully"})
				} else if diff := sameCustom(base, after); diff != "" {
					mm = append(mm, mismatch{d.Name, "stored-out-of-limits", labels, odd, "refused message changed state: " + diff})
				}
			}
		})
		perDom[d.Name] = n
	}
	// what is stored is what was validated: every reference-accepted UpdateDID (<= 2 non-default classes), properly proven by the
	// current key, is delivered to a chain whose DID already carries every optional section; the stored document must be
	// byte-identical to the submitted one and satisfy the reference validator itself
	storedVerbatim := 0
	{
		k := e.DidKey
		wr := populated(e)
		rich := k.doc("D5", e.Did)
		rich.AssertionMethods = []didtypes.VerificationRelationship{didtypes.NewVerificationRelationship(k.vmID(e.Did, 1))}
		rich.KeyAgreements = []didtypes.VerificationRelationship{didtypes.NewVerificationRelationship(k.vmID(e.Did, 1))}
		if res := wr.Send(world.TxSpec{Msgs: []sdk.Msg{&didtypes.MsgUpdateDIDRequest{Did: e.Did, Document: rich, VerificationMethodId: k.vmID(e.Did, 1), Signature: k.sign(rich, 0, 1), FromAddress: e.A.Bech}}, Signers: []*world.Account{e.A}, Fee: aolFee}); res.Code != 0 {
			panic("C16: cannot install the rich document: " + res.Log)
		}
		for _, d := range doms {
			if d.Name != "did.MsgUpdateDIDRequest" {
				continue
			}
			d.product(2, func(m0 sdk.Msg, labels []string, odd int) {
				m, ok := roundTrip(d, m0)
				if !ok || !d.Ref(m) {
					return
				}
				u := m.(*didtypes.MsgUpdateDIDRequest)
				if u.Did != e.Did || u.Document == nil {
					return
				}
				u.VerificationMethodId = k.vmID(e.Did, 1)
				u.Signature = k.sign(u.Document, 1, 1)
				want, _ := u.Document.Marshal()
				discard := wr.Fork()
				res := wr.Send(world.TxSpec{Msgs: []sdk.Msg{u}, Signers: d.Signers(e), Fee: aolFee})
				var got []byte
				var stored *didtypes.DIDDocument
				if res.Code == 0 {
					dws := wr.App.DidKeeper.GetDIDDocument(wr.Ctx(), e.Did)
					stored = dws.Document
					got, _ = stored.Marshal()
				}
				discard()
				if res.Code != 0 {
					return
				}
				storedVerbatim++
				if !bytes.Equal(got, want) {
					mm = append(mm, mismatch{d.Name, "stored-differs-from-validated", labels, odd, "an accepted update stored a document that is not the submitted (validated) one"})
				} else if !refDoc(stored, e.Did) {
					mm = append(mm, mismatch{d.Name, "stored-out-of-limits", labels, odd, "an accepted update stored a document outside the published limits"})
				}
			})
		}
	}
	// ... and what the PNFT module holds after ANY accepted message stays inside the limits: every reference-accepted PNFT message
	// (<= 2 non-default classes) is delivered to the populated chain; after an accepted one every stored denom must still have a
	// well-formed id, a name, a symbol and an owner address, every token of it a well-formed id and a name
	storedWithin := 0
	{
		wp := populated(e)
		for _, d := range doms {
			if !strings.HasPrefix(d.Name, "pnft.") {
				continue
			}
			d.product(2, func(m0 sdk.Msg, labels []string, odd int) {
				m, ok := roundTrip(d, m0)
				if !ok || !d.Ref(m) {
					return
				}
				discard := wp.Fork()
				defer discard()
				if res := wp.Send(world.TxSpec{Msgs: []sdk.Msg{m}, Signers: d.Signers(e), Fee: aolFee}); res.Code != 0 {
					return
				}
				storedWithin++
				denoms, err := wp.App.PnftKeeper.GetAllDenoms(wp.Ctx())
				if err != nil {
					mm = append(mm, mismatch{d.Name, "stored-unreadable", labels, odd, "after an accepted message the denoms cannot be read: " + err.Error()})
					return
				}
				for _, dn := range denoms {
					if !refID(dn.Id) || dn.Name == "" || dn.Symbol == "" || !refAddr(dn.Owner) {
						mm = append(mm, mismatch{d.Name, "stored-out-of-limits", labels, odd, fmt.Sprintf("an accepted message left denom %q outside the published limits (name %q, symbol %q, owner %q)", dn.Id, dn.Name, dn.Symbol, dn.Owner)})
						return
					}
					toks, err := wp.App.PnftKeeper.GetPNFTsByDenomId(wp.Ctx(), dn.Id)
					if err != nil {
						mm = append(mm, mismatch{d.Name, "stored-unreadable", labels, odd, "after an accepted message the tokens of " + dn.Id + " cannot be read: " + err.Error()})
						return
					}
					for _, tk := range toks {
						if !refID(tk.Id) || tk.Name == "" || !refAddr(tk.Owner) || !refAddr(tk.Creator) {
							mm = append(mm, mismatch{d.Name, "stored-out-of-limits", labels, odd, fmt.Sprintf("an accepted message left token %q/%q outside the published limits", dn.Id, tk.Id)})
							return
						}
					}
				}
			})
		}
	}
	// charset, byte by byte: every single byte value as a one-character name and as the second character after "a", for the
	// topic name (three message types) and the moniker: accepted <=> the byte is in the published character set
	charsetEvals := 0
	for b := 0; b < 256; b++ {
		for _, name := range []string{string([]byte{byte(b)}), "a" + string([]byte{byte(b)}), string([]byte{byte(b)}) + "a"} {
			want := refTopic(name)
			for _, m := range []sdk.Msg{
				aoltypes.NewMsgCreateTopic(name, "", e.A.Bech),
				aoltypes.NewMsgDeleteWriter(name, e.W.Bech, e.A.Bech),
				aoltypes.NewMsgAddRecordRequest(name, nil, nil, e.W.Bech, e.A.Bech, ""),
				aoltypes.NewMsgAddWriter(name, "", "", e.W.Bech, e.A.Bech),
			} {
				charsetEvals++
				if got := m.ValidateBasic() == nil; got != want {
					mm = append(mm, mismatch{fmt.Sprintf("%T", m), map[bool]string{true: "rejects-within-limits", false: "accepts-out-of-limits"}[want], []string{fmt.Sprintf("topic-byte=0x%02x", b)}, 1, fmt.Sprintf("topic name %q: ValidateBasic accepts=%v, published charset says %v", name, !want, want)})
				}
			}
			mon := aoltypes.NewMsgAddWriter("a", name, "", e.W.Bech, e.A.Bech)
			charsetEvals++
			if got := mon.ValidateBasic() == nil; got != refMoniker(name) {
				mm = append(mm, mismatch{"*types.MsgAddWriterRequest", map[bool]string{true: "rejects-within-limits", false: "accepts-out-of-limits"}[refMoniker(name)], []string{fmt.Sprintf("moniker-byte=0x%02x", b)}, 1, fmt.Sprintf("moniker %q: ValidateBasic accepts=%v", name, got)})
			}
		}
	}
	evals += charsetEvals
	// report the minimal (fewest non-default fields) mismatches per (type, direction), at most 4 each
	sort.SliceStable(mm, func(i, j int) bool { return mm[i].odd < mm[j].odd })
	perKey := map[string]int{}
	minOdd := map[string]int{}
	for _, x := range mm {
		key := x.dom + ":" + x.dir
		if _, ok := minOdd[key]; !ok {
			minOdd[key] = x.odd
		}
		if x.odd > minOdd[key] || perKey[key] >= 4 {
			continue
		}
		perKey[key]++
		sig := fmt.Sprintf("%s:%s:%s", x.dom, x.dir, strings.Join(x.labels, ","))
		run.Add(report.Viol{Kind: x.dir, Sig: sig, Msg: fmt.Sprintf("%s with %v: %s", x.dom, x.labels, x.detail),
			Replay: map[string]any{"check": "C16", "type": x.dom, "non_default_fields": x.labels}})
	}
	run.Coverage["evaluations"] = evals
	run.Coverage["distinct_nontrivial"] = boundary
	run.Coverage["rule"] = fmt.Sprintf("per message type the product of per-field boundary classes (full Cartesian product when <= 200000 combinations, otherwise every combination of at most %d non-default classes); each value is serialised and decoded again, then ValidateBasic()==nil must equal the hand-written reference validator; reference-rejected messages with <= %d non-default fields are additionally signed by the actor they name and delivered to a populated chain (must be refused, custom stores unchanged). non-trivial = inputs with at most one non-default class (each field's boundary classes alone)", maxOdd, deliverOdd)
	run.Coverage["samples"] = samples
	run.Coverage["exhaustive"] = true
	run.Coverage["accepted_by_validate_basic"] = accepted
	run.Coverage["delivered_rejected_messages"] = delivered
	run.Coverage["accepted_pnft_messages_checked_in_store"] = storedWithin
	run.Coverage["undecodable_skipped"] = undecodable
	run.Coverage["accepted_updates_compared_with_store"] = storedVerbatim
	run.Coverage["per_type_inputs"] = perDom
	run.Coverage["mismatches_total"] = len(mm)
	run.Assumptions = []string{
		"ambiguities excluded from the alphabet: vertical tab / Unicode spaces in method ids, the verification method controller field, absent @context",
		"well-formed address = bech32 with prefix panacea and a 1..255 byte payload (upper-case bech32 is well-formed)",
		"pnft identifiers containing NUL are not well-formed (they alias x/nft store keys)",
	}
	return run.Finish()
}
