package checks

import (
	"encoding/base64"
	"encoding/json"
	"fmt"
	"os"
	"os/exec"
	"path/filepath"
	"strings"
	"time"

	dbm "github.com/cometbft/cometbft-db"
	abci "github.com/cometbft/cometbft/abci/types"

	"verif/engine/report"
	"verif/engine/world"
)

// ---- (b) snapshot reads at call granularity ---------------------------------------------------------------

// snapshotRun executes a raw history on a fresh instance; after every Commit(h) the query list is recorded at the
// explicit height h, and between every two later ABCI calls (and around interleaved CheckTx/Simulate calls) every
// height <= committed and "latest" are queried again and must give the recorded answers.
// mode 0: plain; 1: CheckTx+Simulate before every tx; 2: the node is restarted after every Commit (committed snapshots survive).
func (e *twinEnv) snapshotRun(h History, mode int) (queries int, problem string) {
	withCheckTx := mode == 1
	var accs []*world.Account
	for _, n := range h.Accounts {
		accs = append(accs, world.NewAccount(n))
	}
	w := world.New(world.Options{Accounts: accs, DB: dbm.NewMemDB(), Mutate: genesisVariants[h.Genesis], ExtraCoins: twinExtraCoins})
	recorded := map[int64][]string{}
	last := int64(1)
	recorded[1] = e.runQueries(w, 1)
	verify := func(where string) bool {
		for hh, want := range recorded {
			got := e.runQueries(w, hh)
			queries += len(got)
			for i := range want {
				if got[i] != want[i] {
					problem = fmt.Sprintf("%s: query at fixed height %d changed: %s -> %s", where, hh, want[i], got[i])
					return false
				}
			}
		}
		got := e.runQueries(w, 0)
		queries += len(got)
		want := recorded[last]
		for i := range want {
			if got[i] != want[i] {
				problem = fmt.Sprintf("%s: latest-height query does not equal the state committed at height %d (half-applied block visible?): %s vs %s", where, last, got[i], want[i])
				return false
			}
		}
		return true
	}
	for bi, blk := range h.Blocks {
		if !verify(fmt.Sprintf("block %d after BeginBlock", bi)) {
			return
		}
		h.maybeScheduleUpgrade(w, bi)
		for ti, t64 := range blk {
			bz, _ := base64.StdEncoding.DecodeString(t64)
			if withCheckTx {
				w.App.CheckTx(abci.RequestCheckTx{Tx: bz, Type: abci.CheckTxType_New})
				_, _, _ = w.App.Simulate(bz)
				if !verify(fmt.Sprintf("block %d after CheckTx+Simulate of tx %d", bi, ti)) {
					return
				}
			}
			w.Deliver(bz)
			if !verify(fmt.Sprintf("block %d after DeliverTx %d", bi, ti)) {
				return
			}
		}
		w.EndBlock()
		if !verify(fmt.Sprintf("block %d after EndBlock", bi)) {
			return
		}
		w.Commit()
		last = w.Height
		recorded[last] = e.runQueries(w, last)
		// latest must now be the new height
		if !verify(fmt.Sprintf("block %d after Commit", bi)) {
			return
		}
		if mode == 2 {
			w.Restart()
			if !verify(fmt.Sprintf("block %d after Commit and a restart", bi)) {
				return
			}
			continue // Restart has begun the next block
		}
		w.BeginBlock()
	}
	return
}

func c20Shard(t Tier, shard, n int) (run *report.Run) {
	run = report.NewRun("C20", t.Name, "model_checking", "E4+E1")
	e := newTwinEnv()
	maxLen := 2
	if t.Thorough {
		maxLen = 3
	}
	dl := deadline(t, 90*time.Second, 15*time.Minute)
	cases := buildShard(e, maxLen, shard, n)
	cases = append(cases, variantCases(e, shard, n)...) // unusual genesis contents (zero timestamps, shared ids, ...)
	cases = append(cases, upgradeCases(e, shard, n)...)
	cases = append(cases, cleanupCases(e, shard, n)...)
	queries, execs := 0, 0
	capHit := false
	for ci, c := range cases {
		if time.Now().After(dl) {
			capHit = true
			break
		}
		for _, chk := range []int{0, 1, 2} {
			if chk == 2 && !t.Thorough && ci%3 != 0 && c.hist.Genesis == "" && c.hist.UpgradeAtBlock == 0 {
				continue // quick: the restart-after-every-Commit mode for every third plain history (all variant / upgrade histories)
			}
			q, problem := e.snapshotRun(c.hist, chk)
			queries += q
			execs++
			if problem != "" {
				run.Add(report.Viol{Kind: "snapshot-read", Sig: "snapshot-read:" + firstWords(problem[strings.Index(problem, ": ")+2:], 5),
					Msg: fmt.Sprintf("history %s: %s", c.name, problem), Replay: map[string]any{"check": "C20b", "history": c.name, "mode": chk}})
				break
			}
		}
	}
	run.Coverage["histories"] = len(cases)
	run.Coverage["executions"] = execs
	run.Coverage["queries"] = queries
	run.Coverage["cap_hit"] = capHit
	return run
}

// ---- C20 = (a) key store under the controlled scheduler + (b) snapshot reads + auxiliary free-running race pass ----

func C20(t Tier) int {
	run := report.NewRun("C20", t.Name, "model_checking", "E4+E1")
	// (a) the scheduler exploration lives in its own binary (keystore.go compiled against the shims)
	cmd := exec.Command(sibling("kscheck"), "explore", t.Name)
	cmd.Stderr = os.Stderr
	out, err := cmd.Output()
	var ks struct {
		Coverage map[string]any `json:"coverage"`
		Viols    []report.Viol  `json:"viols"`
	}
	found := false
	for _, line := range strings.Split(string(out), "\n") {
		if strings.HasPrefix(line, "KS-RESULT ") {
			if jerr := json.Unmarshal([]byte(line[len("KS-RESULT "):]), &ks); jerr == nil {
				found = true
			}
		}
	}
	if err != nil || !found {
		fmt.Fprintf(os.Stderr, "HARNESS ERROR: kscheck failed: %v\n%s\n", err, out)
		return 2
	}
	for _, v := range ks.Viols {
		run.Add(v)
	}
	// (b)
	cov, ok := shardedRun(run, "C20", t)
	if !ok {
		return 2
	}
	hist, execs, queries, capHit := 0, 0, 0, false
	for _, c := range cov {
		hist += int(c["histories"].(float64))
		execs += int(c["executions"].(float64))
		queries += int(c["queries"].(float64))
		capHit = capHit || c["cap_hit"].(bool)
	}
	// auxiliary: free-running race-detector pass (not the deciding step)
	race := map[string]any{"ran": false}
	if _, err := os.Stat(sibling("ksrace")); err == nil {
		iters := "300"
		if t.Thorough {
			iters = "3000"
		}
		rc := exec.Command(sibling("ksrace"), iters)
		rout, rerr := rc.CombinedOutput()
		race["ran"] = true
		race["iterations"] = iters
		s := string(rout)
		switch {
		case strings.Contains(s, "DATA RACE"):
			// only races with a frame in the repository are this property's business (dependency-internal races, e.g. in
			// IAVL, are recorded in the evidence but not reported)
			reported := false
			for _, rep := range strings.Split(s, "WARNING: DATA RACE")[1:] {
				if end := strings.Index(rep, "=================="); end > 0 {
					rep = rep[:end]
				}
				if site := raceSite(rep); site != "unknown-site" {
					run.Add(report.Viol{Kind: "data-race", Sig: "data-race:" + site, Msg: "the race detector reported a data race in the free-running pass:\nWARNING: DATA RACE" + firstN(rep, 1800), Replay: map[string]any{"check": "C20-race", "cmd": "bin/ksrace " + iters}})
					reported = true
					break
				}
			}
			if reported {
				race["result"] = "race reported"
			} else {
				race["result"] = "race reports without any frame in the repository (dependency code); not reported"
			}
		case strings.Contains(s, "all goroutines are asleep"):
			run.Add(report.Viol{Kind: "runtime-deadlock", Sig: "runtime-deadlock:free-running", Msg: "the Go runtime reported a deadlock in the free-running pass:\n" + firstN(s, 1500), Replay: map[string]any{"check": "C20-race"}})
			race["result"] = "runtime deadlock"
		case strings.Contains(s, "SNAPSHOT VIOLATION:"):
			i := strings.Index(s, "SNAPSHOT VIOLATION:")
			line := s[i:]
			if j := strings.Index(line, "\n"); j > 0 {
				line = line[:j]
			}
			run.Add(report.Viol{Kind: "concurrent-use", Sig: "concurrent-use:" + firstWords(line[len("SNAPSHOT VIOLATION: "):], 6), Msg: "free-running concurrent pass: " + line, Replay: map[string]any{"check": "C20-race", "cmd": "bin/ksrace " + iters}})
			race["result"] = "snapshot violation under concurrent queries"
		case rerr != nil:
			fmt.Fprintf(os.Stderr, "HARNESS ERROR: ksrace failed: %v\n%s\n", rerr, firstN(s, 2000))
			return 2
		default:
			race["result"] = "silent (not a proof of race freedom)"
		}
	}
	execA := int(ks.Coverage["executions"].(float64))
	run.Coverage["states"] = max(1, execA)
	run.Coverage["transitions"] = max(1, execA+execs)
	run.Coverage["traces_validated_against_impl"] = execA + execs
	run.Coverage["keystore_schedules_explored"] = execA
	run.Coverage["keystore"] = ks.Coverage
	run.Coverage["snapshot_histories"] = hist
	run.Coverage["snapshot_executions"] = execs
	run.Coverage["snapshot_queries_compared"] = queries
	run.Coverage["race_pass"] = race
	run.Coverage["exhaustive"] = !capHit && ks.Coverage["capped"] == false
	run.Coverage["cap_hit"] = capHit
	samples, _ := ks.Coverage["samples"].([]any)
	if len(samples) == 0 {
		samples = []any{"<none>"}
	}
	run.Coverage["samples"] = samples
	run.Assumptions = []string{
		"(a) key store: x/did/client/crypto/keystore.go is compiled from the working tree with sync/time/os/path/filepath/pbkdf2 imports rewritten to scheduler shims; every schedule of 6 harnesses (2-3 goroutines, 1-2 calls, one shared address) with at most N preemptions and M non-default clock answers is executed; oracle: no deadlock, every complete history linearizable (porcupine) w.r.t. a write-once map of key files",
		"vsync.RWMutex models Go's documented writer preference (a blocked Lock excludes new readers); it is the only modelled primitive",
		"(b) snapshot reads: for every history of C09's set the fixed query list is re-issued at every committed height and at latest between every two ABCI calls (and around CheckTx/Simulate); answers must equal those recorded right after the height was committed",
		"data-race freedom cannot be decided by a cooperative scheduler; the free-running -race pass is auxiliary evidence only; instruction-level interleavings inside baseapp/IAVL are not enumerated",
	}
	return run.Finish()
}

func firstN(s string, n int) string {
	if len(s) > n {
		return s[:n]
	}
	return s
}

// raceSite extracts the first frame that lies in the repository from a race report.
func raceSite(rep string) string {
	for _, line := range strings.Split(rep, "\n") {
		l := strings.TrimSpace(line)
		repo := "/repo/"
		if r := os.Getenv("VERIF_REPO"); r != "" {
			repo = strings.TrimSuffix(r, "/") + "/"
		}
		if strings.HasPrefix(l, repo) {
			l = "/repo/" + strings.TrimPrefix(l, repo)
			if i := strings.Index(l, " "); i > 0 {
				l = l[:i]
			}
			return l
		}
	}
	return "unknown-site"
}

// QueryHammer (used by the -race binary): rounds of {one block with custom traffic, executed exclusively} and
// {8 goroutines issuing the custom query list concurrently at a fixed committed height and at latest}. Queries and
// block execution are serialised against each other exactly as CometBFT's local ABCI client does (one mutex over all
// connections); running them truly concurrently trips known races inside IAVL/rootmulti (dependency code, not this
// repository), which would drown the signal.
func QueryHammer(rounds int) {
	e := newTwinEnv()
	w := populated(e.domEnv, e.X)
	w.NextBlock()
	fixed := w.Height - 1
	want := e.runQueries(w, fixed)
	ops := e.mixedOps()
	for b := 0; b < rounds; b++ {
		for i := range ops {
			w.Send(ops[(i+b)%len(ops)].Build(w))
		}
		w.NextBlock()
		latestWant := e.runQueries(w, 0)
		done := make(chan string, 8)
		for g := 0; g < 8; g++ {
			go func() {
				for k := 0; k < 3; k++ {
					got := e.runQueries(w, fixed)
					for i := range want {
						if got[i] != want[i] {
							done <- fmt.Sprintf("concurrent query at fixed height %d changed: %s vs %s", fixed, got[i], want[i])
							return
						}
					}
					got = e.runQueries(w, 0)
					for i := range latestWant {
						if got[i] != latestWant[i] {
							done <- fmt.Sprintf("concurrent latest-height queries disagree: %s vs %s", got[i], latestWant[i])
							return
						}
					}
				}
				done <- ""
			}()
		}
		for g := 0; g < 8; g++ {
			if msg := <-done; msg != "" {
				fmt.Println("SNAPSHOT VIOLATION:", msg)
				os.Exit(1)
			}
		}
	}
}

// sibling returns the path of another binary built next to this one.
func sibling(name string) string {
	exe, err := os.Executable()
	if err != nil {
		return "/verif/bin/" + name
	}
	return filepath.Join(filepath.Dir(exe), name)
}
