// Package checks holds one file per property (or property family): alphabet, bounds and oracle wiring.
package checks

import (
	"fmt"
	"os"
	"runtime"
	"sort"
	"time"

	"verif/engine/explore"
	"verif/engine/report"
	"verif/engine/world"
)

// Tier parameters
type Tier struct {
	Name     string
	Thorough bool
}

func deadline(t Tier, quick, thorough time.Duration) time.Time {
	if s := os.Getenv("VERIF_DEADLINE_S"); s != "" {
		var n int
		fmt.Sscan(s, &n)
		return time.Now().Add(time.Duration(n) * time.Second)
	}
	if t.Thorough {
		return time.Now().Add(thorough)
	}
	return time.Now().Add(quick)
}

// RunGraph explores sys within the list of bounds (iterated in order; the last completed one is
// reported), confirms every violation by sequential replay and records everything in run.
func RunGraph(run *report.Run, sys *explore.System, bounds []explore.Bounds, minOutcomes int) {
	var last *explore.Result
	var completed *explore.Result
	totalStates, totalTrans, totalPaths := 0, int64(0), int64(0)
	for _, b := range bounds {
		res := explore.Run(sys, b)
		last = res
		fmt.Printf("[%s] bounds depth=%d V=%d: states=%d transitions=%d paths=%d ctl_replays=%d cap_hit=%v wall=%.1fs violations=%d\n",
			sys.ID, b.Depth, b.V, res.States, res.Transitions, res.Paths, res.CtlReplays, res.CapHit, res.WallS, len(res.Violations))
		totalTrans += res.Transitions
		totalPaths += res.Paths
		if res.States > totalStates {
			totalStates = res.States
		}
		if !res.CapHit {
			completed = res
		}
		for _, v := range res.Violations {
			addConfirmed(run, sys, v)
		}
		if res.CapHit || len(res.Violations) > 0 {
			break
		}
	}
	cov := run.Coverage
	rep := completed
	if rep == nil {
		rep = last
	}
	cov["states"] = max(1, rep.States)
	cov["transitions"] = max64(1, rep.Transitions)
	cov["traces_validated_against_impl"] = rep.Paths
	cov["ctl_replays"] = rep.CtlReplays
	cov["max_path_len"] = rep.MaxDepth
	cov["outcome_classes"] = rep.Outcomes
	cov["alphabet_size"] = len(sys.Ops)
	var names []string
	for _, o := range sys.Ops {
		names = append(names, o.Name)
	}
	cov["alphabet"] = names
	if completed != nil {
		cov["depth_completed"] = completed.Bounds.Depth
		cov["deviation_bound_completed"] = completed.Bounds.V
		cov["exhaustive"] = true
	} else {
		cov["depth_completed"] = 0
		cov["exhaustive"] = false
	}
	cov["cap_hit"] = last.CapHit
	if last.CapHit {
		cov["capped_bounds"] = map[string]int{"depth": last.Bounds.Depth, "V": last.Bounds.V}
		cov["capped_run_states"] = last.States
		cov["capped_run_transitions"] = last.Transitions
	}
	cov["total_transitions_all_iterations"] = totalTrans
	samples := rep.Samples
	if len(samples) == 0 {
		samples = [][]string{{"<root only>"}}
	}
	cov["samples"] = samples
	cov["workers"] = runtime.NumCPU()
	// vacuity self-check: a run in which fewer than minOutcomes outcome classes occurred did not exercise the oracle
	if len(rep.Outcomes) < minOutcomes && len(run.Viols) == 0 {
		fmt.Fprintf(os.Stderr, "HARNESS ERROR: vacuous exploration for %s: only %d outcome classes %v\n", sys.ID, len(rep.Outcomes), rep.Outcomes)
		world.CleanScratch()
		os.Exit(2)
	}
}

func addConfirmed(run *report.Run, sys *explore.System, v explore.Violation) {
	ok, why := explore.Confirm(sys, v, 5)
	if !ok {
		fmt.Fprintf(os.Stderr, "HARNESS ERROR: violation %q at %v not reproducible by sequential replay: %s\n", v.Sig, v.Path, why)
		world.CleanScratch()
		os.Exit(2)
	}
	run.Add(report.Viol{Kind: v.Kind, Sig: v.Sig, Msg: v.Msg, Replay: map[string]any{"system": sys.ID, "ops": v.Path}})
}

func max(a, b int) int {
	if a > b {
		return a
	}
	return b
}
func max64(a, b int64) int64 {
	if a > b {
		return a
	}
	return b
}

func sortedKeys[V any](m map[string]V) []string {
	var ks []string
	for k := range m {
		ks = append(ks, k)
	}
	sort.Strings(ks)
	return ks
}
