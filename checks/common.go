// Package checks holds one file per property (or property family): alphabet, bounds and oracle wiring.
package checks

import (
	"encoding/json"
	"fmt"
	"os"
	"os/exec"
	"runtime"
	"sort"
	"strings"
	"sync"
	"time"

	"verif/engine/explore"
	"verif/engine/report"
	"verif/engine/world"
)

// Tier parameters
type Tier struct {
	Name     string
	Thorough bool
}

func deadline(t Tier, quick, thorough time.Duration) time.Time {
	if s := os.Getenv("VERIF_DEADLINE_S"); s != "" {
		var n int
		fmt.Sscan(s, &n)
		return time.Now().Add(time.Duration(n) * time.Second)
	}
	if t.Thorough {
		return time.Now().Add(thorough)
	}
	// The quick figures written at the call sites are what the bound takes on 16 idle cores plus a margin; on a loaded or slower
	// machine the same bound must still be COMPLETED (a deadline that cuts the exploration short ends with exhaustive:false and
	// can miss what the completed bound reports), so the cut-off is 2.5 times the idle figure. An idle run is not affected:
	// exploration ends when the bound is complete.
	return time.Now().Add(quick * 5 / 2)
}

// RunGraph explores sys within the list of bounds (iterated in order; the last completed one is
// reported), confirms every violation by sequential replay and records everything in run.
func RunGraph(run *report.Run, sys *explore.System, bounds []explore.Bounds, minOutcomes int) {
	if ov := os.Getenv("VERIF_BOUNDS"); ov != "" && len(bounds) > 0 { // development aid: "depth,V"
		var d, v int
		if n, _ := fmt.Sscanf(ov, "%d,%d", &d, &v); n == 2 {
			bounds = []explore.Bounds{{Depth: d, V: v, Deadline: bounds[0].Deadline}}
		}
	}
	var last *explore.Result
	var completed *explore.Result
	totalStates, totalTrans, totalPaths := 0, int64(0), int64(0)
	for _, b := range bounds {
		if !b.Deadline.IsZero() && time.Now().After(b.Deadline) && last != nil {
			break
		}
		res := explore.Run(sys, b)
		last = res
		fmt.Printf("[%s] bounds depth=%d V=%d: states=%d transitions=%d paths=%d ctl_replays=%d cap_hit=%v wall=%.1fs violations=%d\n",
			sys.ID, b.Depth, b.V, res.States, res.Transitions, res.Paths, res.CtlReplays, res.CapHit, res.WallS, len(res.Violations))
		totalTrans += res.Transitions
		totalPaths += res.Paths
		if res.States > totalStates {
			totalStates = res.States
		}
		if !res.CapHit {
			completed = res
		}
		unconfirmed := 0
		for _, cands := range res.Candidates {
			ok := false
			for _, v := range cands {
				if addConfirmed(run, sys, v) {
					ok = true
					break
				}
			}
			if !ok {
				unconfirmed++
			}
		}
		if unconfirmed > 0 && len(run.Viols) > 0 {
			// some signatures reproduced sequentially: report those; the others were artefacts of discarded forks on a tree
			// that keeps state outside the store
			fmt.Printf("[%s] %d further fork-mode signatures did not reproduce sequentially and are not reported\n", sys.ID, unconfirmed)
			run.Coverage["fork_mode_unsound_for_this_tree"] = true
			unconfirmed = 0
		}
		if unconfirmed > 0 {
			// The tree under test keeps state outside the store (fork + discard left traces): fork-based exploration is not
			// sound for it. Repeat with every transition executed by sequential replay on a fresh World.
			fmt.Printf("[%s] %d fork-mode violations did not reproduce sequentially: the implementation keeps state outside the store; repeating the exploration without forks\n", sys.ID, unconfirmed)
			nb := b
			nb.NoFork = true
			res2 := explore.Run(sys, nb)
			fmt.Printf("[%s] no-fork bounds depth=%d V=%d: states=%d transitions=%d cap_hit=%v wall=%.1fs violations=%d\n", sys.ID, nb.Depth, nb.V, res2.States, res2.Transitions, res2.CapHit, res2.WallS, len(res2.Violations))
			for _, cands := range res2.Candidates {
				v := cands[0]
				if !addConfirmed(run, sys, v) {
					fmt.Fprintf(os.Stderr, "HARNESS ERROR: violation %q found by sequential exploration does not reproduce\n", v.Sig)
					world.CleanScratch()
					os.Exit(2)
				}
			}
			run.Coverage["fork_mode_unsound_for_this_tree"] = true
			last, res = res2, res2
			if !res2.CapHit {
				completed = res2
			}
		}
		if res.CapHit || len(res.Violations) > 0 {
			break
		}
	}
	rep := completed
	if rep == nil {
		rep = last
	}
	cov := map[string]any{} // this system's own coverage; the run's top-level coverage aggregates all systems
	cov["states"] = max(1, rep.States)
	cov["transitions"] = max64(1, rep.Transitions)
	cov["traces_validated_against_impl"] = rep.Paths
	cov["ctl_replays"] = rep.CtlReplays
	cov["max_path_len"] = rep.MaxDepth
	cov["outcome_classes"] = rep.Outcomes
	cov["alphabet_size"] = len(sys.Ops)
	var names []string
	for _, o := range sys.Ops {
		names = append(names, o.Name)
	}
	cov["alphabet"] = names
	if completed != nil {
		cov["depth_completed"] = completed.Bounds.Depth
		cov["deviation_bound_completed"] = completed.Bounds.V
		cov["exhaustive"] = true
	} else {
		cov["depth_completed"] = 0
		cov["exhaustive"] = false
	}
	cov["cap_hit"] = last.CapHit
	if last.CapHit {
		cov["capped_bounds"] = map[string]int{"depth": last.Bounds.Depth, "V": last.Bounds.V}
		cov["capped_run_states"] = last.States
		cov["capped_run_transitions"] = last.Transitions
	}
	cov["total_transitions_all_iterations"] = totalTrans
	samples := rep.Samples
	if len(samples) == 0 {
		samples = [][]string{{"<root only>"}}
	}
	cov["samples"] = samples
	cov["workers"] = runtime.NumCPU()
	aggregateSystems(run, sys.ID, cov)
	// vacuity self-check: a run in which fewer than minOutcomes outcome classes occurred did not exercise the oracle
	if len(rep.Outcomes) < minOutcomes && len(run.Viols) == 0 && !rep.CapHit && !last.CapHit {
		fmt.Fprintf(os.Stderr, "HARNESS ERROR: vacuous exploration for %s: only %d outcome classes %v\n", sys.ID, len(rep.Outcomes), rep.Outcomes)
		world.CleanScratch()
		os.Exit(2)
	}
}

// aggregateSystems records one explored system under coverage.systems and recomputes the run's top-level figures:
// sums of states / transitions / traces over all systems, exhaustive = all exhaustive, cap_hit = any; depth and
// deviation bound, alphabet and samples are those of the first (primary) system.
func aggregateSystems(run *report.Run, id string, sub map[string]any) {
	top := run.Coverage
	systems, _ := top["systems"].(map[string]any)
	if systems == nil {
		systems = map[string]any{}
	}
	order, _ := top["system_order"].([]string)
	if _, dup := systems[id]; !dup {
		order = append(order, id)
	}
	systems[id] = sub
	top["systems"], top["system_order"] = systems, order
	states, trans, traces := 0, int64(0), int64(0)
	exhaustive, capHit := true, false
	for _, sid := range order {
		c := systems[sid].(map[string]any)
		states += c["states"].(int)
		trans += c["transitions"].(int64)
		traces += c["traces_validated_against_impl"].(int64)
		exhaustive = exhaustive && c["exhaustive"].(bool)
		capHit = capHit || c["cap_hit"].(bool)
	}
	first := systems[order[0]].(map[string]any)
	top["states"], top["transitions"], top["traces_validated_against_impl"] = states, trans, traces
	top["exhaustive"], top["cap_hit"] = exhaustive, capHit
	for _, k := range []string{"depth_completed", "deviation_bound_completed", "alphabet_size", "alphabet", "samples", "outcome_classes", "workers", "capped_bounds"} {
		if v, ok := first[k]; ok {
			top[k] = v
		}
	}
}

// addConfirmed believes a violation only after 5 sequential replays (fresh World, no forks, no explorer) reproduce it.
func addConfirmed(run *report.Run, sys *explore.System, v explore.Violation) bool {
	ok, why := explore.Confirm(sys, v, 5)
	if !ok {
		fmt.Printf("[%s] not believed: %q at %v does not reproduce by sequential replay (%s)\n", sys.ID, v.Sig, v.Path, why)
		return false
	}
	run.Add(report.Viol{Kind: v.Kind, Sig: v.Sig, Msg: v.Msg, Replay: map[string]any{"system": sys.ID, "ops": v.Path}})
	return true
}

func max(a, b int) int {
	if a > b {
		return a
	}
	return b
}
func max64(a, b int64) int64 {
	if a > b {
		return a
	}
	return b
}

func sortedKeys[V any](m map[string]V) []string {
	var ks []string
	for k := range m {
		ks = append(ks, k)
	}
	sort.Strings(ks)
	return ks
}

// ---- sharded worker processes -------------------------------------------------------------------------

type shardOut struct {
	Coverage map[string]any `json:"coverage"`
	Viols    []report.Viol  `json:"viols"`
}

// ShardFuncs maps a check id to its single-threaded shard body.
var ShardFuncs = map[string]func(t Tier, shard, n int) *report.Run{}

// ShardMain is `pcheck shard <ID> <tier> <i> <n>`: runs one shard and prints its result as one JSON line.
func ShardMain(id, tier string, shard, n int) int {
	f, ok := ShardFuncs[id]
	if !ok {
		return 2
	}
	t := Tier{Name: tier, Thorough: tier == "thorough"}
	run := f(t, shard, n)
	bz, err := json.Marshal(shardOut{Coverage: run.Coverage, Viols: run.Viols})
	if err != nil {
		fmt.Fprintln(os.Stderr, "shard: cannot marshal result:", err)
		return 2
	}
	fmt.Printf("SHARD-RESULT %s\n", bz)
	return 0
}

// shardedRun spawns one worker process per core, merges violations into run and returns the per-shard coverage maps.
func shardedRun(run *report.Run, id string, t Tier) ([]map[string]any, bool) {
	n := runtime.NumCPU()
	if s := os.Getenv("VERIF_WORKERS"); s != "" {
		fmt.Sscan(s, &n)
	}
	outs := make([]*shardOut, n)
	errs := make([]error, n)
	var wg sync.WaitGroup
	for i := 0; i < n; i++ {
		wg.Add(1)
		go func(i int) {
			defer wg.Done()
			cmd := exec.Command(os.Args[0], "shard", id, t.Name, fmt.Sprint(i), fmt.Sprint(n))
			cmd.Env = append(os.Environ(), "GOMAXPROCS=2")
			cmd.Stderr = os.Stderr
			bz, err := cmd.Output()
			if err != nil {
				errs[i] = fmt.Errorf("shard %d: %v", i, err)
				return
			}
			for _, line := range strings.Split(string(bz), "\n") {
				if strings.HasPrefix(line, "SHARD-RESULT ") {
					var o shardOut
					if err := json.Unmarshal([]byte(line[len("SHARD-RESULT "):]), &o); err != nil {
						errs[i] = err
						return
					}
					outs[i] = &o
				}
			}
			if outs[i] == nil {
				errs[i] = fmt.Errorf("shard %d printed no result", i)
			}
		}(i)
	}
	wg.Wait()
	var cov []map[string]any
	for i := 0; i < n; i++ {
		if errs[i] != nil {
			fmt.Fprintln(os.Stderr, "HARNESS ERROR:", errs[i])
			return nil, false
		}
		cov = append(cov, outs[i].Coverage)
		for _, v := range outs[i].Viols {
			run.Add(v)
		}
	}
	return cov, true
}
