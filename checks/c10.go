package checks

import (
	"fmt"
	"os"
	"os/exec"
	"path/filepath"
	"strings"
	"sync"
	"time"

	dbm "github.com/cometbft/cometbft-db"

	"verif/engine/report"
	"verif/engine/world"
)

// stopPointName labels an ABCI call index of a history.
func stopPointName(h History, idx int) string {
	i := 0
	for bi, b := range h.Blocks {
		if idx == i {
			return fmt.Sprintf("block%d:after-BeginBlock", bi)
		}
		i++
		for ti := range b {
			if idx == i {
				return fmt.Sprintf("block%d:after-tx%d-of-%d", bi, ti+1, len(b))
			}
			i++
		}
		if idx == i {
			return fmt.Sprintf("block%d:after-EndBlock", bi)
		}
		i++
		if idx == i {
			return fmt.Sprintf("block%d:after-Commit", bi)
		}
		i++
	}
	return fmt.Sprintf("call%d", idx)
}

// committedBlocksAt returns how many history blocks are committed once the run stopped after call idx.
func committedBlocksAt(h History, idx int) int {
	i, done := 0, 0
	for _, b := range h.Blocks {
		i += 2 + len(b) // Begin, txs, End
		if idx >= i {   // Commit call index == i
			done++
		}
		i++
	}
	return done
}

// judgeRestart compares a stopped+resumed execution with the uninterrupted twin.
func judgeRestart(c *histCase, stop int, resumed ExecResult) string {
	done := committedBlocksAt(c.hist, stop)
	wantHeight := int64(1 + done) // height 1 = empty genesis block
	if resumed.ResumeHeight != wantHeight {
		return fmt.Sprintf("resumed at height %d, the last committed height was %d", resumed.ResumeHeight, wantHeight)
	}
	if done > 0 {
		tw := c.obsA[done-1]
		if resumed.ResumeAppHash != tw.AppHash {
			return fmt.Sprintf("after restart LastCommitID is %s, committed app hash was %s", resumed.ResumeAppHash, tw.AppHash)
		}
		if resumed.ResumeState != tw.State {
			return fmt.Sprintf("after restart the committed aol/did/pnft/bank stores differ from the twin's at height %d (uncommitted work left a trace or committed state was lost)", wantHeight)
		}
	}
	if d := diffObs(c.obsA[done:], resumed.Obs); d != "" {
		return "after restart the remaining blocks differ from the uninterrupted twin: " + d
	}
	return ""
}

// C10 runs in 16 single-threaded worker processes (see C09).
func C10(t Tier) int {
	run := report.NewRun("C10", t.Name, "fault_enumeration", "E1+E5")
	cov, ok := shardedRun(run, "C10", t)
	if !ok {
		return 2
	}
	evals, nontrivial, hist, procRuns, capHit := 0, 0, 0, 0, false
	var samples []any
	for _, c := range cov {
		evals += int(c["evaluations"].(float64))
		nontrivial += int(c["distinct_nontrivial"].(float64))
		hist += int(c["histories"].(float64))
		procRuns += int(c["process_kill_runs"].(float64))
		capHit = capHit || c["cap_hit"].(bool)
		if s, ok := c["samples"].([]any); ok && len(samples) < 4 {
			samples = append(samples, s...)
		}
	}
	run.Coverage["evaluations"] = max(1, evals)
	run.Coverage["distinct_nontrivial"] = nontrivial
	run.Coverage["rule"] = "for every history (all sequences of length <= L over the 12-entry mixed alphabet after a populating setup block, as one block and as one block per tx) and EVERY stop point (after BeginBlock, after each prefix of the block's transactions, after EndBlock before Commit, after Commit): stop, re-open on the same database, compare LastBlockHeight / LastCommitID / committed aol+did+pnft+bank stores with the uninterrupted twin at that height, then re-execute the interrupted block and the rest and compare every app hash, tx result, event hash and query answer. In-process restarts on a MemDB for all (history, stop point) pairs; real processes on goleveldb killed with os.Exit at the stop point for every k-th history. non-trivial = pairs whose stop point lies inside a begun, uncommitted block"
	run.Coverage["samples"] = samples
	run.Coverage["exhaustive"] = !capHit
	run.Coverage["cap_hit"] = capHit
	run.Coverage["histories"] = hist
	run.Coverage["process_kill_runs"] = procRuns
	run.Coverage["max_history_len"] = map[bool]int{false: 2, true: 3}[t.Thorough]
	run.Coverage["worker_processes"] = len(cov)
	run.Assumptions = []string{
		"crash points are ABCI call boundaries; crash points inside Commit (between database batches) exercise SDK/IAVL code and are not enumerated",
		"process kill = os.Exit without closing the database (data already handed to the OS survives, as after a process crash; power loss is out of scope)",
	}
	return run.Finish()
}

func c10Shard(t Tier, shard, nshards int) (run *report.Run) {
	run = report.NewRun("C10", t.Name, "fault_enumeration", "E1+E5")
	e := newTwinEnv()
	maxLen := 2
	if t.Thorough {
		maxLen = 3
	}
	dl := deadline(t, 140*time.Second, 20*time.Minute)
	// (the short special histories first: they are few, and the listed finding F15 lives in one of them)
	cases := cleanupCases(e, shard, nshards)
	cases = append(cases, buildShard(e, maxLen, shard, nshards)...)
	cases = append(cases, upgradeCases(e, shard, nshards)...) // histories containing an in-process software upgrade
	cases = append(cases, longCases(e, shard, nshards)...)
	cases = append(cases, variantCases(e, shard, nshards)...) // what genesis import left in process memory must not matter after a restart
	var mu sync.Mutex
	evals, nontrivial := 0, 0
	capHit := false
	fail := func(c *histCase, mode string, stop int, why string) {
		mu.Lock()
		defer mu.Unlock()
		sp := stopPointName(c.hist, stop)
		kind := sp[len("blockN:"):]
		sig := "restart-divergence:" + mode + ":" + kind + ":" + firstWords(why, 4)
		if strings.Contains(why, preAnteGasTag+":") {
			// one root cause whatever the stop point and the way the node was stopped: named by what differs and where
			sig = "restart-divergence:" + preAnteGasTag + ":later-block"
			if strings.Contains(why, preAnteGasTag+":blocks=[0] ") {
				sig = "restart-divergence:" + preAnteGasTag + ":first-block-after-restart"
			}
		}
		run.Add(report.Viol{Kind: "restart-divergence", Sig: sig,
			Msg:    fmt.Sprintf("history %s stopped at %s (%s restart): %s", c.name, sp, mode, why),
			Replay: map[string]any{"check": "C10", "history": c.name, "stop_point": sp, "mode": mode}})
	}
	// ---- every stop point, in-process restart on the same MemDB ----
	var wg sync.WaitGroup
	sem := make(chan struct{}, 1)
	for ci, c := range cases {
		wg.Add(1)
		sem <- struct{}{}
		func(ci int, c *histCase) {
			defer wg.Done()
			defer func() { <-sem }()
			n := abciCalls(c.hist)
			first := 0
			if ci != 0 || shard != 0 {
				first = 3 + len(c.hist.Blocks[0]) - 1 // the setup block's stop points are explored with the first history; keep its Commit
			}
			for stop := first; stop < n; stop++ {
				if time.Now().After(dl) {
					mu.Lock()
					capHit = true
					mu.Unlock()
					return
				}
				db := dbm.NewMemDB()
				r1 := e.execHistory(c.hist, RunOpts{StopAt: stop}, db)
				if r1.Stopped != stop {
					fmt.Fprintf(os.Stderr, "HARNESS ERROR: stop point %d not reached (%d)\n", stop, r1.Stopped)
					os.Exit(2)
				}
				r2 := e.execHistory(c.hist, RunOpts{StopAt: -1, Resume: true}, db)
				mu.Lock()
				evals++
				// non-trivial: the interrupted block had begun and contained at least one transaction
				if sp := stopPointName(c.hist, stop); len(sp) > 0 && !containsWord(sp, "after-Commit") {
					nontrivial++
				}
				mu.Unlock()
				if why := judgeRestart(c, stop, r2); why != "" {
					fail(c, "in-process", stop, why)
					break
				}
			}
		}(ci, c)
	}
	wg.Wait()
	// ---- real processes on a goleveldb directory, killed at the stop point (package-level Go state cannot survive) ----
	procCases := cases
	stride := 7
	if t.Thorough {
		stride = 2
	}
	procRuns := 0
	psem := make(chan struct{}, 1)
	var pwg sync.WaitGroup
	for ci, c := range procCases {
		if ci%stride != 0 {
			continue
		}
		n := abciCalls(c.hist)
		first := 3 + len(c.hist.Blocks[0]) - 1
		for stop := first; stop < n; stop++ {
			if c.long && stop%9 != 0 { // long histories: every 9th stop point as a real process kill (all of them in-process above)
				continue
			}
			pwg.Add(1)
			psem <- struct{}{}
			func(c *histCase, stop int) {
				defer pwg.Done()
				defer func() { <-psem }()
				if time.Now().After(dl) {
					mu.Lock()
					capHit = true
					mu.Unlock()
					return
				}
				dir, err := os.MkdirTemp(world.ScratchDir, "c10db-")
				if err != nil {
					panic(err)
				}
				defer os.RemoveAll(dir)
				// child 1: runs until the stop point, then dies with exit status 3
				r, err := startReplica(2)
				if err != nil {
					panic(err)
				}
				_, cerr := r.call(replicaReq{History: c.hist, Opts: RunOpts{StopAt: stop, DBDir: filepath.Join(dir, "db")}})
				r.in.Close()
				werr := r.cmd.Wait()
				if cerr == nil {
					fmt.Fprintf(os.Stderr, "HARNESS ERROR: crash child answered instead of dying\n")
					os.Exit(2)
				}
				if ee, ok := werr.(*exec.ExitError); !ok || ee.ExitCode() != 3 {
					fmt.Fprintf(os.Stderr, "HARNESS ERROR: crash child ended with %v (expected exit status 3)\n", werr)
					os.Exit(2)
				}
				// child 2: a new process resumes on the directory
				r2, err := startReplica(2)
				if err != nil {
					panic(err)
				}
				resp, err := r2.call(replicaReq{History: c.hist, Opts: RunOpts{StopAt: -1, Resume: true, DBDir: filepath.Join(dir, "db")}})
				r2.close()
				if err != nil || resp.Err != "" {
					fail(c, "process-kill", stop, fmt.Sprintf("the restarted process could not resume: %v %s", err, resp.Err))
					return
				}
				mu.Lock()
				evals++
				nontrivial++
				procRuns++
				mu.Unlock()
				if why := judgeRestart(c, stop, resp.Res); why != "" {
					fail(c, "process-kill", stop, why)
				}
			}(c, stop)
		}
	}
	pwg.Wait()
	run.Coverage["evaluations"] = evals
	run.Coverage["distinct_nontrivial"] = nontrivial
	run.Coverage["histories"] = len(cases)
	run.Coverage["process_kill_runs"] = procRuns
	run.Coverage["cap_hit"] = capHit
	if len(cases) > 0 {
		c := cases[len(cases)/2]
		run.Coverage["samples"] = []any{map[string]any{"history": c.name, "stop_point": stopPointName(c.hist, abciCalls(c.hist)-3)}}
	}
	return run
}

func firstWords(s string, n int) string {
	out := ""
	cnt := 0
	for i := 0; i < len(s); i++ {
		if s[i] == ' ' {
			cnt++
			if cnt == n {
				break
			}
		}
		out += string(s[i])
	}
	return out
}
