package checks

import (
	"bufio"
	"crypto/sha256"
	"encoding/base64"
	"encoding/hex"
	"encoding/json"
	"fmt"
	"io"
	"os"
	"os/exec"
	"sort"
	"strings"

	dbm "github.com/cometbft/cometbft-db"
	abci "github.com/cometbft/cometbft/abci/types"
	"github.com/cosmos/cosmos-sdk/codec"
	sdk "github.com/cosmos/cosmos-sdk/types"
	authtypes "github.com/cosmos/cosmos-sdk/x/auth/types"
	banktypes "github.com/cosmos/cosmos-sdk/x/bank/types"
	crisistypes "github.com/cosmos/cosmos-sdk/x/crisis/types"
	stakingtypes "github.com/cosmos/cosmos-sdk/x/staking/types"
	upgradetypes "github.com/cosmos/cosmos-sdk/x/upgrade/types"
	aoltypes "github.com/medibloc/panacea-core/v2/x/aol/types"
	burntypes "github.com/medibloc/panacea-core/v2/x/burn/types"
	didtypes "github.com/medibloc/panacea-core/v2/x/did/types"
	pnfttypes "github.com/medibloc/panacea-core/v2/x/pnft/types"

	"github.com/medibloc/panacea-core/v2/app"

	"verif/engine/world"
)

// Engine E5: twin / restart driver. A history is a list of blocks of raw transaction bytes (built and signed once
// by the parent); any instance - in this process or a child process - can execute it and report what it observed.

type TxObs struct {
	Code      uint32 `json:"code"`
	Codespace string `json:"codespace"`
	Data      string `json:"data"`
	GasWanted int64  `json:"gas_wanted"`
	GasUsed   int64  `json:"gas_used"`
	Events    string `json:"events"` // sha256 of the canonical event list
}

type BlockObs struct {
	Height    int64    `json:"height"`
	AppHash   string   `json:"app_hash"`
	Txs       []TxObs  `json:"txs"`
	BeginEv   string   `json:"begin_events"`
	EndEvents string   `json:"end_events"`
	Queries   []string `json:"queries"` // answers of the fixed query list after Commit
	State     string   `json:"state"`   // hash of the committed aol/did/pnft/bank stores
}

func committedStateHash(w *world.World) string {
	h := w.StoreHash("aol", "did", "pnft", "bank")
	return hex.EncodeToString(h[:12])
}

type History struct {
	Accounts []string   `json:"accounts"`
	Blocks   [][]string `json:"blocks"`  // base64 tx bytes
	Genesis  string     `json:"genesis"` // name of a genesis variant ("" = plain default genesis)
	// UpgradeAtBlock > 0: at the start of that history block the software-upgrade plan UpgradeName is scheduled for the next
	// height on the deliver state (a stand-in for a passed upgrade proposal, which does exactly this call in gov's end
	// blocker); the next block's BeginBlock then executes the upgrade handler in-process.
	UpgradeAtBlock int    `json:"upgrade_at_block"`
	UpgradeName    string `json:"upgrade_name"`
}

func (h History) maybeScheduleUpgrade(w *world.World, bi int) {
	if h.UpgradeAtBlock > 0 && bi == h.UpgradeAtBlock {
		w.AsWrittenByPredecessor()
		if err := w.App.UpgradeKeeper.ScheduleUpgrade(w.Ctx(), upgradetypes.Plan{Name: h.UpgradeName, Height: w.Height + 1}); err != nil {
			panic(err)
		}
	}
}

// genesisVariants: unusual but validation-passing genesis contents (the property quantifies over every genesis).
// Go map iteration order during InitGenesis is the nondeterminism these are meant to provoke.
var genesisVariants = map[string]func(gs map[string]json.RawMessage, cdc codec.Codec){
	"did-shared-document-id": func(gs map[string]json.RawMessage, cdc codec.Codec) {
		e := newDidEnv()
		dA, dB := e.DIDs[0], e.DIDs[1]
		docs := map[string]*didtypes.DIDDocumentWithSeq{
			dA: {Document: e.doc("D1", dB), Sequence: 3}, // key dA, document about dB
			dB: {Document: e.doc("D2", dB), Sequence: 5},
		}
		for i := 0; i < 6; i++ { // more pairs, so that every import order is likely to show within a few samples
			x := fmt.Sprintf("did:panacea:%s%d", strings.Repeat("3", 31), i+1)
			y := fmt.Sprintf("did:panacea:%s%d", strings.Repeat("4", 31), i+1)
			docs[x] = &didtypes.DIDDocumentWithSeq{Document: e.doc("D1", y), Sequence: uint64(10 + i)}
			docs[y] = &didtypes.DIDDocumentWithSeq{Document: e.doc("D5", y), Sequence: uint64(20 + i)}
		}
		gs["did"] = cdc.MustMarshalJSON(&didtypes.GenesisState{Documents: docs})
	},
	"did-many": func(gs map[string]json.RawMessage, cdc codec.Codec) {
		gs["did"] = cdc.MustMarshalJSON(&didtypes.GenesisState{Documents: bulkDIDs(newDidEnv(), 40)})
	},
	"aol-odd-owners": func(gs map[string]json.RawMessage, cdc codec.Codec) { c13Inject().mutate(gs, cdc) },
	"aol-zero-timestamps": func(gs map[string]json.RawMessage, cdc codec.Codec) {
		B, W := world.NewAccount("B"), world.NewAccount("W")
		g := aoltypes.GenesisState{Owners: map[string]*aoltypes.Owner{B.Bech: {TotalTopics: 1}},
			Topics:  map[string]*aoltypes.Topic{B.Bech + "/g": {TotalWriters: 1, TotalRecords: 1}},
			Writers: map[string]*aoltypes.Writer{B.Bech + "/g/" + W.Bech: {Moniker: "w"}}, // nano_timestamp omitted
			Records: map[string]*aoltypes.Record{B.Bech + "/g/0": {Key: []byte("k"), Value: []byte("v"), WriterAddress: W.Bech}}}
		gs["aol"] = cdc.MustMarshalJSON(&g)
	},
	// many topics of one owner: some without records, some without writers, the rest with several records spread over two topics
	"aol-empty-and-busy-topics": func(gs map[string]json.RawMessage, cdc codec.Codec) {
		B, W := world.NewAccount("B"), world.NewAccount("W")
		g := aoltypes.GenesisState{Owners: map[string]*aoltypes.Owner{B.Bech: {TotalTopics: 12}}, Topics: map[string]*aoltypes.Topic{},
			Writers: map[string]*aoltypes.Writer{}, Records: map[string]*aoltypes.Record{}}
		for i := 0; i < 12; i++ {
			tn := fmt.Sprintf("g%02d", i)
			if i == 0 {
				tn = "g" // the entry the query list asks for
			}
			t := &aoltypes.Topic{Description: tn}
			if i%4 != 3 { // every fourth topic has no writer
				t.TotalWriters = 1
				g.Writers[B.Bech+"/"+tn+"/"+W.Bech] = &aoltypes.Writer{Moniker: "w", NanoTimestamp: 5}
			}
			if i%3 != 2 && i%4 != 3 { // a third of the topics (and those without writers) hold no record
				t.TotalRecords = 3
				for r := 0; r < 3; r++ {
					g.Records[fmt.Sprintf("%s/%s/%d", B.Bech, tn, r)] = &aoltypes.Record{Key: []byte(fmt.Sprintf("%s-%d", tn, r)), Value: []byte("v"), NanoTimestamp: int64(7 + r), WriterAddress: W.Bech}
				}
			}
			g.Topics[B.Bech+"/"+tn] = t
		}
		gs["aol"] = cdc.MustMarshalJSON(&g)
	},
	"pnft-mixed": func(gs map[string]json.RawMessage, cdc codec.Codec) {
		A, B, W := world.NewAccount("A"), world.NewAccount("B"), world.NewAccount("W")
		var g pnfttypes.GenesisState
		for i, o := range []*world.Account{B, A, W, A, B} {
			g.Denoms = append(g.Denoms, &pnfttypes.Denom{Id: fmt.Sprintf("g%d", 5-i), Name: "n", Symbol: "S", Owner: o.Bech})
		}
		for i, o := range []*world.Account{W, B, A, B} {
			g.Pnfts = append(g.Pnfts, &pnfttypes.Pnft{DenomId: "g3", Id: fmt.Sprintf("t%d", 9-i), Name: "tok", Creator: A.Bech, Owner: o.Bech, CreatedAt: world.BaseTime})
		}
		gs["pnft"] = cdc.MustMarshalJSON(&g)
	},
}

// refusedGenesis: genesis contents a correct node refuses at InitChain (it panics). What matters for C09: the verdict, and the
// state if it starts at all, must be the same on every node.
var refusedGenesis = map[string]func(gs map[string]json.RawMessage, cdc codec.Codec){
	"aol-one-malformed-topic-key": func(gs map[string]json.RawMessage, cdc codec.Codec) {
		B, W := world.NewAccount("B"), world.NewAccount("W")
		g := aoltypes.GenesisState{Owners: map[string]*aoltypes.Owner{B.Bech: {TotalTopics: 12}}, Topics: map[string]*aoltypes.Topic{},
			Writers: map[string]*aoltypes.Writer{}, Records: map[string]*aoltypes.Record{}}
		for i := 0; i < 12; i++ {
			tn := fmt.Sprintf("g%02d", i)
			g.Topics[B.Bech+"/"+tn] = &aoltypes.Topic{Description: tn, TotalWriters: 1, TotalRecords: 1}
			g.Writers[B.Bech+"/"+tn+"/"+W.Bech] = &aoltypes.Writer{Moniker: "w", NanoTimestamp: 5}
			g.Records[B.Bech+"/"+tn+"/0"] = &aoltypes.Record{Key: []byte("k"), Value: []byte("v"), NanoTimestamp: 5, WriterAddress: W.Bech}
		}
		g.Topics["panacea1notanaddress/g-bad"] = &aoltypes.Topic{Description: "malformed owner part"}
		gs["aol"] = cdc.MustMarshalJSON(&g)
	},
	"did-one-malformed-key": func(gs map[string]json.RawMessage, cdc codec.Codec) {
		e := newDidEnv()
		docs := bulkDIDs(e, 8)
		docs["not-a-did"] = &didtypes.DIDDocumentWithSeq{Document: e.doc("D1", e.DIDs[0]), Sequence: 1}
		gs["did"] = cdc.MustMarshalJSON(&didtypes.GenesisState{Documents: docs})
	},
}

type RunOpts struct {
	CheckTxBefore      bool           `json:"check_tx_before"`
	SimulateBefore     bool           `json:"simulate_before"`
	QueriesBetween     bool           `json:"queries_between"`
	ExtraAt            map[int]string `json:"extra_at"`       // ABCI call index -> "check"|"simulate"|"query"
	DBDir              string         `json:"db_dir"`         // goleveldb directory ("" = MemDB)
	StopAt             int            `json:"stop_at"`        // exit the process (os.Exit(3)) right after this ABCI call index; -1 = never
	Resume             bool           `json:"resume"`         // continue on an existing DBDir: blocks <= committed height are skipped
	MinGasPrices       string         `json:"min_gas_prices"` // node-local app.toml settings of this replica
	InterBlockCache    bool           `json:"inter_block_cache"`
	RestartAfterCommit bool           `json:"restart_after_commit"` // the node is stopped and started again after every Commit (before the queries)
}

func hashEvents(evs []abci.Event) string {
	h := sha256.New()
	for _, e := range evs {
		fmt.Fprintf(h, "T%q{", e.Type)
		for _, a := range e.Attributes {
			fmt.Fprintf(h, "%q=%q/%v;", a.Key, a.Value, a.Index)
		}
		h.Write([]byte("}"))
	}
	return hex.EncodeToString(h.Sum(nil)[:12])
}

func obsTx(r abci.ResponseDeliverTx) TxObs {
	return TxObs{Code: r.Code, Codespace: r.Codespace, Data: hex.EncodeToString(r.Data), GasWanted: r.GasWanted, GasUsed: r.GasUsed, Events: hashEvents(r.Events)}
}

// every account of a twin history also holds the staking denomination (the Delegate entry of the alphabet)
var twinExtraCoins = sdk.NewCoins(sdk.NewInt64Coin(sdk.DefaultBondDenom, 1000000))

// twinEnv: the fixed cast of the mixed alphabet.
type twinEnv struct {
	*domEnv
	X *world.Account
}

func newTwinEnv() *twinEnv { return &twinEnv{newDomEnv(), world.NewAccount("X")} }

func (e *twinEnv) accounts() []*world.Account { return []*world.Account{e.A, e.B, e.W, e.F, e.X} }

// queryList is the fixed custom query list (path, request) issued against committed state.
func (e *twinEnv) queryList() []struct {
	Path string
	Req  interface{ Marshal() ([]byte, error) }
} {
	type q = struct {
		Path string
		Req  interface{ Marshal() ([]byte, error) }
	}
	b64 := base64.StdEncoding.EncodeToString([]byte(e.Did))
	return []q{
		{"/panacea.aol.v2.Query/Topic", &aoltypes.QueryTopicRequest{OwnerAddress: e.A.Bech, TopicName: "a"}},
		{"/panacea.aol.v2.Query/Topics", &aoltypes.QueryTopicsRequest{OwnerAddress: e.A.Bech}},
		{"/panacea.aol.v2.Query/Writers", &aoltypes.QueryWritersRequest{OwnerAddress: e.A.Bech, TopicName: "a"}},
		{"/panacea.aol.v2.Query/Record", &aoltypes.QueryRecordRequest{OwnerAddress: e.A.Bech, TopicName: "a", Offset: 0}},
		{"/panacea.aol.v2.Query/Record", &aoltypes.QueryRecordRequest{OwnerAddress: e.A.Bech, TopicName: "a", Offset: 1}},
		{"/panacea.did.v2.Query/DID", &didtypes.QueryDIDRequest{DidBase64: b64}},
		{"/panacea.pnft.v2.Query/Denoms", &pnfttypes.QueryDenomsRequest{}},
		{"/panacea.pnft.v2.Query/PNFTs", &pnfttypes.QueryPNFTsRequest{DenomId: "d"}},
		{"/panacea.pnft.v2.Query/PNFT", &pnfttypes.QueryPNFTRequest{DenomId: "d", Id: "t"}},
		{"/panacea.pnft.v2.Query/DenomsByOwner", &pnfttypes.QueryDenomsByOwnerRequest{Owner: e.A.Bech}},
		{"/cosmos.bank.v1beta1.Query/SupplyOf", &banktypes.QuerySupplyOfRequest{Denom: "umed"}},
		// entries that exist only in some genesis variants (NotFound elsewhere)
		{"/panacea.aol.v2.Query/Record", &aoltypes.QueryRecordRequest{OwnerAddress: e.B.Bech, TopicName: "g", Offset: 0}},
		{"/panacea.aol.v2.Query/Writer", &aoltypes.QueryWriterRequest{OwnerAddress: e.B.Bech, TopicName: "g", WriterAddress: e.W.Bech}},
		{"/panacea.pnft.v2.Query/Denom", &pnfttypes.QueryDenomRequest{Id: "d"}},
		{"/panacea.pnft.v2.Query/Denom", &pnfttypes.QueryDenomRequest{Id: "dx"}},
		{"/panacea.pnft.v2.Query/PNFTsByDenomOwner", &pnfttypes.QueryPNFTsByDenomOwnerRequest{DenomId: "d", Owner: e.A.Bech}},
		{"/panacea.pnft.v2.Query/PNFTsByDenomOwner", &pnfttypes.QueryPNFTsByDenomOwnerRequest{DenomId: "d", Owner: e.B.Bech}},
		{"/panacea.aol.v2.Query/Writer", &aoltypes.QueryWriterRequest{OwnerAddress: e.A.Bech, TopicName: "a", WriterAddress: e.W.Bech}},
		// requests that are no single address (two owners who both hold denoms, joined the way a careless client might): whatever
		// the node answers - normally a refusal - it must answer it every time, on every replica
		{"/panacea.pnft.v2.Query/DenomsByOwner", &pnfttypes.QueryDenomsByOwnerRequest{Owner: e.A.Bech + "," + e.B.Bech}},
		{"/panacea.pnft.v2.Query/DenomsByOwner", &pnfttypes.QueryDenomsByOwnerRequest{Owner: e.B.Bech + "," + e.A.Bech + "," + e.W.Bech}},
		{"/panacea.pnft.v2.Query/PNFTsByDenomOwner", &pnfttypes.QueryPNFTsByDenomOwnerRequest{DenomId: "d", Owner: e.A.Bech + "," + e.B.Bech}},
		{"/panacea.aol.v2.Query/Topics", &aoltypes.QueryTopicsRequest{OwnerAddress: e.A.Bech + "," + e.B.Bech}},
	}
}

func (e *twinEnv) runQueries(w *world.World, height int64) []string {
	var out []string
	for _, q := range e.queryList() {
		bz, _ := q.Req.Marshal()
		res := w.App.Query(abci.RequestQuery{Path: q.Path, Data: bz, Height: height})
		h := sha256.Sum256(res.Value)
		out = append(out, fmt.Sprintf("%s code=%d %s", q.Path[strings.LastIndex(q.Path, "/")+1:], res.Code, hex.EncodeToString(h[:8])))
	}
	return out
}

type mixedOp struct {
	Name  string
	Build func(w *world.World) world.TxSpec
}

// mixedOps is the 12-entry mixed alphabet of C09/C10/C20b (valid and failing AOL/DID/PNFT txs, one send to the burn address).
func (e *twinEnv) mixedOps() []mixedOp {
	s := func(a ...*world.Account) []*world.Account { return a }
	k := e.DidKey
	burn, _ := sdk.AccAddressFromBech32(burntypes.BurnAddress)
	one := func(name string, signers []*world.Account, msg sdk.Msg) mixedOp {
		return mixedOp{name, func(w *world.World) world.TxSpec {
			return world.TxSpec{Msgs: []sdk.Msg{msg}, Signers: signers, Fee: aolFee}
		}}
	}
	seqOf := func(w *world.World, did string) uint64 { return w.App.DidKeeper.GetDIDDocument(w.Ctx(), did).Sequence }
	return []mixedOp{
		one("CreateTopic(A,ab)", s(e.A), aoltypes.NewMsgCreateTopic("ab", "", e.A.Bech)),
		one("AddWriter(A,a,X)", s(e.A), aoltypes.NewMsgAddWriter("a", "x", "", e.X.Bech, e.A.Bech)),
		one("AddRecord(A,a,by=W)", s(e.W), aoltypes.NewMsgAddRecordRequest("a", []byte("k2"), []byte("v2"), e.W.Bech, e.A.Bech, "")),
		one("AddRecord(A,a,by=X)", s(e.X), aoltypes.NewMsgAddRecordRequest("a", []byte("kx"), []byte("vx"), e.X.Bech, e.A.Bech, "")),
		one("DeleteWriter(A,a,W)", s(e.A), aoltypes.NewMsgDeleteWriter("a", e.W.Bech, e.A.Bech)),
		{"UpdateDID(d1,D2+services-with-a-repeated-id)", func(w *world.World) world.TxSpec {
			doc := k.doc("D2", e.Did)
			for _, id := range []string{"s0", "s1", "s2", "s3", "s4", "s5", "s0"} { // ids are not required to be unique
				doc.Services = append(doc.Services, &didtypes.Service{Id: id, Type: "T-" + id, ServiceEndpoint: "https://example.org/" + id + fmt.Sprint(len(doc.Services))})
			}
			return world.TxSpec{Msgs: []sdk.Msg{&didtypes.MsgUpdateDIDRequest{Did: e.Did, Document: doc, VerificationMethodId: k.vmID(e.Did, 1), Signature: k.sign(doc, seqOf(w, e.Did), 1), FromAddress: e.B.Bech}}, Signers: s(e.B), Fee: aolFee}
		}},
		{"DeactivateDID(d1,k1)", func(w *world.World) world.TxSpec {
			return world.TxSpec{Msgs: []sdk.Msg{&didtypes.MsgDeactivateDIDRequest{Did: e.Did, VerificationMethodId: k.vmID(e.Did, 1), Signature: k.sign(&didtypes.DIDDocument{Id: e.Did}, seqOf(w, e.Did), 1), FromAddress: e.B.Bech}}, Signers: s(e.B), Fee: aolFee}
		}},
		{"CreateDID(d2,D5)", func(w *world.World) world.TxSpec {
			d2 := k.DIDs[1]
			doc := k.doc("D5", d2)
			return world.TxSpec{Msgs: []sdk.Msg{&didtypes.MsgCreateDIDRequest{Did: d2, Document: doc, VerificationMethodId: k.vmID(d2, 1), Signature: k.sign(doc, 0, 1), FromAddress: e.B.Bech}}, Signers: s(e.B), Fee: aolFee}
		}},
		one("Mint(d,tt,A)", s(e.A), pnfttypes.NewMsgMintPNFTRequest("d", "tt", "tok2", "", "", "", e.A.Bech, "")),
		one("TransferPNFT(d,t,A->B)", s(e.A), pnfttypes.NewMsgTransferPNFTRequest("d", "t", e.A.Bech, e.B.Bech)),
		one("Mint(d,t,B)", s(e.B), pnfttypes.NewMsgMintPNFTRequest("d", "t", "evil", "", "", "", e.B.Bech, "")),
		one("Send(A->burn,7umed)", s(e.A), banktypes.NewMsgSend(e.A.Addr, burn, sdk.NewCoins(sdk.NewInt64Coin("umed", 7)))),
		// denom d has no data, denom dx (setup) has: whatever a node decoded last must not leak into what it stores
		one("TransferDenom(d,A->B)", s(e.A), pnfttypes.NewMsgTransferRequest("d", e.A.Bech, e.B.Bech)),
		one("UpdateDenom(d,A)", s(e.A), pnfttypes.NewMsgUpdateDenomRequest("d", "", "renamed", "", "", "", "", e.A.Bech)),
		// a rolled-back transaction (its second message fails) and a later create: what the failed transaction touched in
		// memory must not survive - neither on a node that keeps running nor, differently, on one that restarts
		{"Tx[CreateDID(d2,D5),CreateDID(d2,D5)]", func(w *world.World) world.TxSpec {
			d2 := k.DIDs[1]
			doc := k.doc("D5", d2)
			m := &didtypes.MsgCreateDIDRequest{Did: d2, Document: doc, VerificationMethodId: k.vmID(d2, 1), Signature: k.sign(doc, 0, 1), FromAddress: e.B.Bech}
			return world.TxSpec{Msgs: []sdk.Msg{m, m}, Signers: s(e.B), Fee: aolFee}
		}},
		{"CreateDID(d3,D1)", func(w *world.World) world.TxSpec {
			d3 := didtypes.NewDID([]byte("twin-third-did"))
			doc := k.doc("D1", d3)
			return world.TxSpec{Msgs: []sdk.Msg{&didtypes.MsgCreateDIDRequest{Did: d3, Document: doc, VerificationMethodId: k.vmID(d3, 1), Signature: k.sign(doc, 0, 1), FromAddress: e.B.Bech}}, Signers: s(e.B), Fee: aolFee}
		}},
		{"Tx[AddRecord(A,a,by=W),AddRecord(nosuchtopic)]", func(w *world.World) world.TxSpec {
			return world.TxSpec{Msgs: []sdk.Msg{aoltypes.NewMsgAddRecordRequest("a", []byte("kr"), []byte("vr"), e.W.Bech, e.A.Bech, ""),
				aoltypes.NewMsgAddRecordRequest("nosuchtopic", []byte("k"), []byte("v"), e.W.Bech, e.A.Bech, "")}, Signers: s(e.W), Fee: aolFee}
		}},
		// a staking operation: fires the distribution / slashing hooks wired into the staking keeper
		// (entries from here on are used by the special histories only, not by the exhaustive enumeration: see enumCount)
		{"Delegate(B->validator,1000stake)", func(w *world.World) world.TxSpec {
			val := w.App.StakingKeeper.GetAllValidators(w.Ctx())[0]
			return world.TxSpec{Msgs: []sdk.Msg{stakingtypes.NewMsgDelegate(e.B.Addr, val.GetOperator(), sdk.NewInt64Coin(w.App.StakingKeeper.BondDenom(w.Ctx()), 1000))}, Signers: s(e.B), Fee: aolFee, Gas: 400000}
		}},
		one("Burn(d,t,A)", s(e.A), pnfttypes.NewMsgBurnPNFTRequest("d", "t", e.A.Bech)),
		one("DeleteDenom(d,A)", s(e.A), pnfttypes.NewMsgDeleteDenomRequest("d", e.A.Bech)),
		one("DeleteWriter(A,a,W);second", s(e.A), aoltypes.NewMsgDeleteWriter("a", e.W.Bech, e.A.Bech)),
		// a document with many verification methods one of the later ones being invalid: refused, on every machine alike
		{"CreateDID(d4,9 methods,7th invalid)", func(w *world.World) world.TxSpec {
			d4 := didtypes.NewDID([]byte("twin-fourth-did"))
			doc := k.doc("D1", d4)
			for i := 2; i <= 9; i++ {
				vm := didtypes.NewVerificationMethod(fmt.Sprintf("%s#extra%d", d4, i), es256k, d4, k.pub(1))
				if i == 7 {
					vm.PublicKeyBase58 = "0OIl-not-base58"
				}
				doc.VerificationMethods = append(doc.VerificationMethods, &vm)
			}
			return world.TxSpec{Msgs: []sdk.Msg{&didtypes.MsgCreateDIDRequest{Did: d4, Document: doc, VerificationMethodId: k.vmID(d4, 1), Signature: k.sign(doc, 0, 1), FromAddress: e.B.Bech}}, Signers: s(e.B), Fee: aolFee}
		}},
		{"CreateDID(d5,9 valid methods)", func(w *world.World) world.TxSpec {
			d5 := didtypes.NewDID([]byte("twin-fifth-did"))
			doc := k.doc("D1", d5)
			for i := 2; i <= 9; i++ {
				vm := didtypes.NewVerificationMethod(fmt.Sprintf("%s#extra%d", d5, i), es256k, d5, k.pub(1))
				doc.VerificationMethods = append(doc.VerificationMethods, &vm)
			}
			return world.TxSpec{Msgs: []sdk.Msg{&didtypes.MsgCreateDIDRequest{Did: d5, Document: doc, VerificationMethodId: k.vmID(d5, 1), Signature: k.sign(doc, 0, 1), FromAddress: e.B.Bech}}, Signers: s(e.B), Fee: aolFee}
		}},
		// x/crisis: a user asks the chain to check a registered invariant (routes are wired at start-up: a restarted node
		// must have the same ones as a node that never stopped)
		{"VerifyInvariant(bank/total-supply)", func(w *world.World) world.TxSpec {
			return world.TxSpec{Msgs: []sdk.Msg{crisistypes.NewMsgVerifyInvariant(e.A.Addr, "bank", "total-supply")}, Signers: s(e.A), Fee: aolFee, Gas: 3000000}
		}},
		{"VerifyInvariant(staking/module-accounts)", func(w *world.World) world.TxSpec {
			return world.TxSpec{Msgs: []sdk.Msg{crisistypes.NewMsgVerifyInvariant(e.B.Addr, "staking", "module-accounts")}, Signers: s(e.B), Fee: aolFee, Gas: 3000000}
		}},
		// a brand-new denom while the x/nft module account already exists (whatever a process does "the first time" must not show)
		one("CreateDenom(dz,B)", s(e.B), pnfttypes.NewMsgCreateDenomRequest("dz", "SZ", "late denom", "", "", "", e.B.Bech, "")),
		one("Mint(dz,t,B)", s(e.B), pnfttypes.NewMsgMintPNFTRequest("dz", "t", "tok", "", "", "", e.B.Bech, "")),
		// plain transfers to module accounts other than gov's: refused (blocked addresses), by every node alike
		one("Send(A->fee_collector,3umed)", s(e.A), banktypes.NewMsgSend(e.A.Addr, authtypes.NewModuleAddress(authtypes.FeeCollectorName), sdk.NewCoins(sdk.NewInt64Coin("umed", 3)))),
		one("Send(A->bonded_tokens_pool,3umed)", s(e.A), banktypes.NewMsgSend(e.A.Addr, authtypes.NewModuleAddress(stakingtypes.BondedPoolName), sdk.NewCoins(sdk.NewInt64Coin("umed", 3)))),
		one("Send(A->distribution,3umed)", s(e.A), banktypes.NewMsgSend(e.A.Addr, authtypes.NewModuleAddress("distribution"), sdk.NewCoins(sdk.NewInt64Coin("umed", 3)))),
		one("Send(A->mint,3umed)", s(e.A), banktypes.NewMsgSend(e.A.Addr, authtypes.NewModuleAddress("mint"), sdk.NewCoins(sdk.NewInt64Coin("umed", 3)))),
		one("Send(A->nft,3umed)", s(e.A), banktypes.NewMsgSend(e.A.Addr, authtypes.NewModuleAddress("nft"), sdk.NewCoins(sdk.NewInt64Coin("umed", 3)))),
		one("Send(A->transfer,3umed)", s(e.A), banktypes.NewMsgSend(e.A.Addr, authtypes.NewModuleAddress("transfer"), sdk.NewCoins(sdk.NewInt64Coin("umed", 3)))),
	}
}

// enumCount: how many entries of mixedOps take part in the exhaustive enumeration of histories (the first ones, up to and
// including the staking delegation); the rest appear in the special histories (upgrade / long / cleanup cases).
func (e *twinEnv) enumCount() int { return 18 }

// cleanupCases: histories that empty and remove things (burn the only token, delete the denom, delete the only writer) and go
// on afterwards: leftovers of removed objects must not be treated differently by a node that restarted.
func cleanupCases(e *twinEnv, shard, n int) []*histCase {
	var out []*histCase
	for i, blocks := range [][][]int{{{18}, {19}, {0, 2}}, {{18, 19}, {}, {8}}, {{4}, {18}, {19, 20}, {2}}, {{21}, {22, 21}}, {{23}, {2, 24}, {23}}, {{25}, {26, 0}}, {{2}, {25, 26}}, {{27, 28, 29}, {30, 31, 32}}} {
		if (i+9)%n != shard {
			continue
		}
		h, obs := e.buildHistory(blocks)
		out = append(out, &histCase{blocks: blocks, name: "cleanup " + histName(e.mixedOps(), blocks), hist: h, obsA: obs})
	}
	return out
}

// setupSpecs: the populated base state, built inside the history's first block so that every twin executes it too.
func (e *twinEnv) setupSpecs() []world.TxSpec {
	s := func(a ...*world.Account) []*world.Account { return a }
	k := e.DidKey
	doc := k.doc("D1", e.Did)
	return []world.TxSpec{
		{Msgs: []sdk.Msg{aoltypes.NewMsgCreateTopic("a", "desc", e.A.Bech)}, Signers: s(e.A), Fee: aolFee},
		{Msgs: []sdk.Msg{aoltypes.NewMsgAddWriter("a", "w", "", e.W.Bech, e.A.Bech)}, Signers: s(e.A), Fee: aolFee},
		{Msgs: []sdk.Msg{aoltypes.NewMsgAddRecordRequest("a", []byte("k"), []byte("v"), e.W.Bech, e.A.Bech, "")}, Signers: s(e.W), Fee: aolFee},
		{Msgs: []sdk.Msg{&didtypes.MsgCreateDIDRequest{Did: e.Did, Document: doc, VerificationMethodId: k.vmID(e.Did, 1), Signature: k.sign(doc, 0, 1), FromAddress: e.A.Bech}}, Signers: s(e.A), Fee: aolFee},
		{Msgs: []sdk.Msg{pnfttypes.NewMsgCreateDenomRequest("d", "SYM", "name", "", "", "", e.A.Bech, "")}, Signers: s(e.A), Fee: aolFee},
		{Msgs: []sdk.Msg{pnfttypes.NewMsgMintPNFTRequest("d", "t", "tok", "", "", "", e.A.Bech, "")}, Signers: s(e.A), Fee: aolFee},
		{Msgs: []sdk.Msg{pnfttypes.NewMsgCreateDenomRequest("dx", "SYX", "with data", "desc", "uri", "hash", e.B.Bech, "{\"schema\":\"v1\"}")}, Signers: s(e.B), Fee: aolFee},
	}
}

// buildHistory executes blocks of op indices on a fresh in-process instance, signing each transaction against the
// state it meets, and returns the raw history plus what this instance (node A) observed.
func (e *twinEnv) buildHistory(blocks [][]int) (History, []BlockObs) {
	return e.buildHistoryG(blocks, "")
}

func (e *twinEnv) buildHistoryG(blocks [][]int, genesis string) (History, []BlockObs) {
	return e.buildHistoryU(blocks, genesis, 0, "")
}

// buildHistoryU: as buildHistoryG, with a software upgrade scheduled at the start of history block upgradeAt (> 0).
func (e *twinEnv) buildHistoryU(blocks [][]int, genesis string, upgradeAt int, upgradeName string) (History, []BlockObs) {
	ops := e.mixedOps()
	w := world.New(world.Options{Accounts: e.accounts(), Mutate: genesisVariants[genesis], ExtraCoins: twinExtraCoins})
	h := History{Genesis: genesis, UpgradeAtBlock: upgradeAt, UpgradeName: upgradeName}
	for _, a := range e.accounts() {
		h.Accounts = append(h.Accounts, a.Name)
	}
	var obs []BlockObs
	all := append([][]int{nil}, blocks...) // block 0 of the history = setup
	for bi, blk := range all {
		var txs []string
		bo := BlockObs{Height: w.Height}
		var specs []world.TxSpec
		if bi == 0 {
			specs = e.setupSpecs()
		}
		n := len(blk)
		if bi == 0 {
			n = len(specs)
		}
		h.maybeScheduleUpgrade(w, bi)
		for i := 0; i < n; i++ {
			var spec world.TxSpec
			if bi == 0 {
				spec = specs[i]
			} else {
				spec = ops[blk[i]].Build(w)
			}
			bz, err := w.BuildTx(spec)
			if err != nil {
				panic(err)
			}
			txs = append(txs, base64.StdEncoding.EncodeToString(bz))
			bo.Txs = append(bo.Txs, obsTx(w.Deliver(bz)))
		}
		eb := w.EndBlock()
		bo.EndEvents = hashEvents(eb.Events)
		bo.AppHash = hex.EncodeToString(w.Commit())
		bo.Queries = e.runQueries(w, 0)
		bo.State = committedStateHash(w)
		obs = append(obs, bo)
		h.Blocks = append(h.Blocks, txs)
		w.BeginBlock()
	}
	return h, obs
}

// ExecResult is what one execution of a raw history reports.
type ExecResult struct {
	Obs           []BlockObs `json:"obs"`
	Stopped       int        `json:"stopped"`        // ABCI call index after which the run stopped (-1: ran to the end)
	ResumeHeight  int64      `json:"resume_height"`  // Resume runs: LastBlockHeight found on the database
	ResumeAppHash string     `json:"resume_apphash"` // Resume runs: LastCommitID hash found
	ResumeState   string     `json:"resume_state"`   // Resume runs: hash of the committed custom + bank stores found
}

// execHistory runs a raw history on an instance (node B) with the given extra calls. ABCI call indices count
// BeginBlock, every DeliverTx, EndBlock and Commit of the history's blocks (the genesis block is not counted).
// db == nil: MemDB (or o.DBDir when set). With o.Resume the instance is opened on the existing database.
func (e *twinEnv) execHistory(h History, o RunOpts, db dbm.DB) (res ExecResult) {
	res.Stopped = -1
	if db == nil && o.DBDir != "" {
		var err error
		db, err = dbm.NewGoLevelDB("application", o.DBDir)
		if err != nil {
			panic(err)
		}
		defer func() {
			if res.Stopped < 0 || o.StopAt < 0 {
				_ = db.Close()
			}
		}()
	}
	var accs []*world.Account
	for _, n := range h.Accounts {
		accs = append(accs, world.NewAccount(n))
	}
	var w *world.World
	startBlock := 0
	call := 0
	if o.Resume {
		w = world.Open(world.Options{Accounts: accs, DB: db, Node: world.NodeConfig{MinGasPrices: o.MinGasPrices, InterBlockCache: o.InterBlockCache}})
		res.ResumeHeight = w.Height
		res.ResumeAppHash = hex.EncodeToString(w.LastHash)
		res.ResumeState = committedStateHash(w)
		// history block i is executed at height i+2 (height 1 is the empty genesis block)
		startBlock = int(w.Height) - 1
		call = -1 << 30 // stop points do not apply to a resumed run
		w.BeginBlock()
	} else {
		w = world.New(world.Options{Accounts: accs, DB: db, Mutate: genesisVariants[h.Genesis], ExtraCoins: twinExtraCoins, Node: world.NodeConfig{MinGasPrices: o.MinGasPrices, InterBlockCache: o.InterBlockCache}})
	}
	after := func() bool { // bookkeeping after one ABCI call; true = stop now
		if o.QueriesBetween || o.ExtraAt[call] == "query" {
			e.runQueries(w, 0)
		}
		stop := o.StopAt >= 0 && call == o.StopAt
		call++
		return stop
	}
	for bi := startBlock; bi < len(h.Blocks); bi++ {
		bo := BlockObs{Height: w.Height}
		if after() { // BeginBlock (issued by New / Open above or at the end of the previous iteration)
			res.Stopped = call - 1
			return
		}
		h.maybeScheduleUpgrade(w, bi)
		for _, t64 := range h.Blocks[bi] {
			bz, _ := base64.StdEncoding.DecodeString(t64)
			if o.CheckTxBefore || o.ExtraAt[call] == "check" {
				w.App.CheckTx(abci.RequestCheckTx{Tx: bz, Type: abci.CheckTxType_New})
			}
			if o.SimulateBefore || o.ExtraAt[call] == "simulate" {
				_, _, _ = w.App.Simulate(bz)
			}
			bo.Txs = append(bo.Txs, obsTx(w.Deliver(bz)))
			if after() {
				res.Stopped = call - 1
				return
			}
		}
		eb := w.EndBlock()
		bo.EndEvents = hashEvents(eb.Events)
		if after() {
			res.Stopped = call - 1
			return
		}
		bo.AppHash = hex.EncodeToString(w.Commit())
		if o.RestartAfterCommit {
			w.Reopen() // a freshly started process answers queries from committed state only
		}
		bo.Queries = e.runQueries(w, 0)
		bo.State = committedStateHash(w)
		res.Obs = append(res.Obs, bo)
		if after() {
			res.Stopped = call - 1
			return
		}
		w.BeginBlock()
	}
	return
}

// abciCalls returns the number of counted ABCI calls of a history.
func abciCalls(h History) int {
	n := 0
	for _, b := range h.Blocks {
		n += 3 + len(b)
	}
	return n
}

// preAnteGasTag marks a difference that consists ONLY of the GasUsed figure of transactions refused before the ante handler ran
// (code != 0, GasWanted == 0): for those baseapp reports what the block context's own gas meter has consumed so far, i.e. the
// begin blockers' work (see DESIGN section 9, F15).
const preAnteGasTag = "gas-used-of-tx-refused-before-ante"

// preAnteGasOnly: are a and b equal once GasUsed of transactions refused before the ante handler is left out? Returns the indices
// of the blocks in which such figures differ.
func preAnteGasOnly(a, b []BlockObs) (blocks []int, ok bool) {
	if len(a) != len(b) {
		return nil, false
	}
	for i := range a {
		if len(a[i].Txs) != len(b[i].Txs) {
			return nil, false
		}
		x, y := a[i], b[i]
		x.Txs, y.Txs = append([]TxObs{}, a[i].Txs...), append([]TxObs{}, b[i].Txs...)
		differs := false
		for j := range x.Txs {
			if x.Txs[j].Code != 0 && x.Txs[j].GasWanted == 0 && y.Txs[j].Code != 0 && y.Txs[j].GasWanted == 0 && x.Txs[j].GasUsed != y.Txs[j].GasUsed {
				differs = true
				x.Txs[j].GasUsed, y.Txs[j].GasUsed = 0, 0
			}
		}
		xb, _ := json.Marshal(x)
		yb, _ := json.Marshal(y)
		if string(xb) != string(yb) {
			return nil, false
		}
		if differs {
			blocks = append(blocks, i)
		}
	}
	return blocks, len(blocks) > 0
}

func diffObs(a, b []BlockObs) string {
	if len(a) != len(b) {
		return fmt.Sprintf("number of blocks %d vs %d", len(a), len(b))
	}
	if blocks, ok := preAnteGasOnly(a, b); ok {
		i := blocks[0]
		for j := range a[i].Txs {
			if a[i].Txs[j] != b[i].Txs[j] {
				return fmt.Sprintf("%s:blocks=%v : everything agrees except GasUsed of transactions that were refused before the ante handler ran; first: block %d tx %d: %+v vs %+v", preAnteGasTag, blocks, i, j, a[i].Txs[j], b[i].Txs[j])
			}
		}
	}
	for i := range a {
		x, _ := json.Marshal(a[i])
		y, _ := json.Marshal(b[i])
		if string(x) != string(y) {
			if a[i].AppHash != b[i].AppHash {
				return fmt.Sprintf("block %d (height %d): app hash %s vs %s", i, a[i].Height, a[i].AppHash, b[i].AppHash)
			}
			for j := range a[i].Txs {
				if j < len(b[i].Txs) && a[i].Txs[j] != b[i].Txs[j] {
					return fmt.Sprintf("block %d tx %d: %+v vs %+v", i, j, a[i].Txs[j], b[i].Txs[j])
				}
			}
			for j := range a[i].Queries {
				if j < len(b[i].Queries) && a[i].Queries[j] != b[i].Queries[j] {
					return fmt.Sprintf("block %d query: %s vs %s", i, a[i].Queries[j], b[i].Queries[j])
				}
			}
			return fmt.Sprintf("block %d: %s vs %s", i, x, y)
		}
	}
	return ""
}

// ---- child process protocol ------------------------------------------------------------------------

type replicaReq struct {
	ID      int     `json:"id"`
	History History `json:"history"`
	Opts    RunOpts `json:"opts"`
}

type replicaResp struct {
	ID  int        `json:"id"`
	Res ExecResult `json:"res"`
	Err string     `json:"err,omitempty"`
}

// ReplicaMain is `pcheck replica`: one request per stdin line, one response per stdout line.
func ReplicaMain() int {
	e := newTwinEnv()
	in := bufio.NewReaderSize(os.Stdin, 1<<20)
	out := bufio.NewWriter(os.Stdout)
	defer out.Flush()
	for {
		line, err := in.ReadBytes('\n')
		if len(line) > 1 {
			var req replicaReq
			if jerr := json.Unmarshal(line, &req); jerr != nil {
				fmt.Fprintln(os.Stderr, "replica: bad request:", jerr)
				return 2
			}
			resp := replicaResp{ID: req.ID}
			func() {
				defer func() {
					if r := recover(); r != nil {
						resp.Err = fmt.Sprint(r)
					}
				}()
				resp.Res = e.execHistory(req.History, req.Opts, nil)
				if req.Opts.StopAt >= 0 && req.Opts.DBDir != "" && resp.Res.Stopped >= 0 {
					// crash mode: die right after the stop point without closing the database or running deferred work
					os.Exit(3)
				}
			}()
			bz, _ := json.Marshal(resp)
			out.Write(bz)
			out.WriteByte('\n')
			out.Flush()
		}
		if err == io.EOF {
			return 0
		}
		if err != nil {
			return 2
		}
	}
}

type replica struct {
	cmd *exec.Cmd
	in  io.WriteCloser
	out *bufio.Reader
}

func startReplica(gomaxprocs int) (*replica, error) {
	cmd := exec.Command(os.Args[0], "replica")
	cmd.Env = append(os.Environ(), fmt.Sprintf("GOMAXPROCS=%d", gomaxprocs))
	cmd.Stderr = os.Stderr
	in, err := cmd.StdinPipe()
	if err != nil {
		return nil, err
	}
	outp, err := cmd.StdoutPipe()
	if err != nil {
		return nil, err
	}
	if err := cmd.Start(); err != nil {
		return nil, err
	}
	return &replica{cmd, in, bufio.NewReaderSize(outp, 1<<20)}, nil
}

func (r *replica) call(req replicaReq) (replicaResp, error) {
	bz, _ := json.Marshal(req)
	if _, err := r.in.Write(append(bz, '\n')); err != nil {
		return replicaResp{}, err
	}
	line, err := r.out.ReadBytes('\n')
	if err != nil {
		return replicaResp{}, err
	}
	var resp replicaResp
	if err := json.Unmarshal(line, &resp); err != nil {
		return replicaResp{}, err
	}
	return resp, nil
}

func (r *replica) close() {
	r.in.Close()
	_ = r.cmd.Wait()
}

// histories enumerates all op sequences of length 1..maxLen, each as (a) one block holding all txs and
// (b) one block per tx.
func enumerateHistories(nOps, maxLen int) [][][]int {
	var out [][][]int
	var rec func(cur []int)
	rec = func(cur []int) {
		if len(cur) > 0 {
			out = append(out, [][]int{append([]int{}, cur...)})
			if len(cur) > 1 {
				var split [][]int
				for _, c := range cur {
					split = append(split, []int{c})
				}
				out = append(out, split)
			}
		}
		if len(cur) == maxLen {
			return
		}
		for i := 0; i < nOps; i++ {
			rec(append(append([]int{}, cur...), i))
		}
	}
	rec(nil)
	return out
}

func histName(ops []mixedOp, blocks [][]int) string {
	var bs []string
	for _, b := range blocks {
		var ns []string
		for _, i := range b {
			ns = append(ns, ops[i].Name)
		}
		bs = append(bs, "["+strings.Join(ns, ", ")+"]")
	}
	return strings.Join(bs, " ")
}

var _ = sort.Strings

// upgradeCases: histories that contain an in-process software upgrade (the newest registered upgrade name, scheduled in
// history block 1, executed by BeginBlock of block 2, followed by a block of traffic).
func upgradeCases(e *twinEnv, shard, n int) []*histCase {
	name := app.Upgrades[len(app.Upgrades)-1].UpgradeName
	var out []*histCase
	for i, blocks := range [][][]int{{{0}, {2}, {5, 11}}, {{2}, {2}, {2}}, {{11}, {8}, {3}}, {{5}, {6, 7}, {1, 3}}, {{17}, {12}, {17, 13}}, {{14}, {16}, {15, 16}}} {
		if i%n != shard {
			continue
		}
		h, obs := e.buildHistoryU(blocks, "", 1, name)
		out = append(out, &histCase{blocks: blocks, name: "upgrade(" + name + ")@block1 " + histName(e.mixedOps(), blocks), hist: h, obsA: obs})
	}
	return out
}

// variantCases: one block of mixed traffic on top of every genesis variant.
func variantCases(e *twinEnv, shard, n int) []*histCase {
	var out []*histCase
	for gi, gv := range sortedKeys(genesisVariants) {
		if gi%n != shard {
			continue
		}
		blocks := [][]int{{0, 2, 5}, {10, 9, 12}} // second block: a mint by a non-owner, a token transfer, a denom transfer
		h, obs := e.buildHistoryG(blocks, gv)
		out = append(out, &histCase{blocks: blocks, name: "genesis=" + gv + " " + histName(e.mixedOps(), blocks), hist: h, obsA: obs})
	}
	return out
}

// longCases: histories longer than any block-count threshold one might reasonably hard-code (24 blocks), with deposits at
// the burn address in most blocks and custom traffic in between.
func longCases(e *twinEnv, shard, n int) []*histCase {
	var out []*histCase
	for i, pat := range [][]int{{11, 11, 2}, {11, -1, 11, 3}} {
		if (i+5)%n != shard {
			continue
		}
		var blocks [][]int
		for b := 0; b < 24; b++ {
			if op := pat[b%len(pat)]; op >= 0 {
				blocks = append(blocks, []int{op})
			} else {
				blocks = append(blocks, []int{})
			}
		}
		h, obs := e.buildHistory(blocks)
		out = append(out, &histCase{blocks: blocks, name: fmt.Sprintf("long(24 blocks, pattern %v)", pat), hist: h, obsA: obs, long: true})
	}
	return out
}
