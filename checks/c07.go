package checks

import (
	"encoding/json"
	"fmt"
	"math/big"
	"strings"
	"time"

	abci "github.com/cometbft/cometbft/abci/types"
	"github.com/cosmos/cosmos-sdk/codec"
	sdk "github.com/cosmos/cosmos-sdk/types"
	authtypes "github.com/cosmos/cosmos-sdk/x/auth/types"
	vestingtypes "github.com/cosmos/cosmos-sdk/x/auth/vesting/types"
	banktypes "github.com/cosmos/cosmos-sdk/x/bank/types"
	distrtypes "github.com/cosmos/cosmos-sdk/x/distribution/types"
	govtypes "github.com/cosmos/cosmos-sdk/x/gov/types"
	govv1 "github.com/cosmos/cosmos-sdk/x/gov/types/v1"
	aoltypes "github.com/medibloc/panacea-core/v2/x/aol/types"
	burntypes "github.com/medibloc/panacea-core/v2/x/burn/types"

	"verif/engine/explore"
	"verif/engine/report"
	"verif/engine/world"
)

func c07System() *explore.System {
	A, B := world.NewAccount("A"), world.NewAccount("B")
	burn, err := sdk.AccAddressFromBech32(burntypes.BurnAddress)
	if err != nil {
		panic(err)
	}
	big120 := sdk.NewIntFromBigInt(new(big.Int).Lsh(big.NewInt(1), 120))
	coins := func(s string) sdk.Coins {
		c, err := sdk.ParseCoinsNormalized(s)
		if err != nil {
			panic(err)
		}
		return c
	}
	s := func(a ...*world.Account) []*world.Account { return a }
	far := world.BaseTime.Add(10 * 365 * 24 * time.Hour).Unix()
	var ops []explore.Op
	for _, c := range []string{"1umed", "1000000000000umed", "5uxyz", "7umed,3uxyz"} {
		ops = append(ops, txOp("Send(A->burn,"+c+")", s(A), banktypes.NewMsgSend(A.Addr, burn, coins(c))))
	}
	ops = append(ops,
		txOp("Send(B->burn,2umed)", s(B), banktypes.NewMsgSend(B.Addr, burn, coins("2umed"))),
		txOp("Send(A->burn,2^120ubig)", s(A), banktypes.NewMsgSend(A.Addr, burn, sdk.NewCoins(sdk.NewCoin("ubig", big120)))),
		txOp("MultiSend(A->burn:3umed,B:2umed)", s(A), banktypes.NewMsgMultiSend(
			[]banktypes.Input{banktypes.NewInput(A.Addr, coins("5umed"))},
			[]banktypes.Output{banktypes.NewOutput(burn, coins("3umed")), banktypes.NewOutput(B.Addr, coins("2umed"))})),
		txOp("CreateVestingAccount(to=burn,1000umed,delayed)", s(A), vestingtypes.NewMsgCreateVestingAccount(A.Addr, burn, coins("1000umed"), far, true)),
		txOp("CreateVestingAccount(to=burn,1000umed+9uxyz,continuous)", s(A), vestingtypes.NewMsgCreateVestingAccount(A.Addr, burn, coins("1000umed,9uxyz"), far, false)),
		txOp("CreatePermanentLockedAccount(to=burn,500umed)", s(A), vestingtypes.NewMsgCreatePermanentLockedAccount(A.Addr, burn, coins("500umed"))),
		txOp("CreatePeriodicVestingAccount(to=burn,2x300umed)", s(A), vestingtypes.NewMsgCreatePeriodicVestingAccount(A.Addr, burn, world.BaseTime.Unix(),
			[]vestingtypes.Period{{Length: 3600 * 24 * 365, Amount: coins("300umed")}, {Length: 3600 * 24 * 365, Amount: coins("300umed")}})),
		txOp("Send(A->B,11umed)", s(A), banktypes.NewMsgSend(A.Addr, B.Addr, coins("11umed"))),
		txOp("CreateTopic(A,a)", s(A), aoltypes.NewMsgCreateTopic("a", "", A.Bech)),
	)
	// the burn MODULE ACCOUNT's own address is a blocked address: a transfer straight to it must be refused (were it accepted
	// before the first burn, an ordinary account would sit where x/burn expects its module account)
	burnModule := authtypes.NewModuleAddress(burntypes.ModuleName)
	ops = append(ops, txOp("Send(A->burn-module-account,5umed)", s(A), banktypes.NewMsgSend(A.Addr, burnModule, coins("5umed"))))
	// another module's end blocker as the route: a governance proposal that pays the burn address out of the community
	// pool, executed by gov's EndBlocker when its (one block long) voting period ends
	govAddr := authtypes.NewModuleAddress(govtypes.ModuleName)
	spend := &distrtypes.MsgCommunityPoolSpend{Authority: govAddr.String(), Recipient: burn.String(), Amount: coins("700umed,9uoff")}
	prop, err := govv1.NewMsgSubmitProposal([]sdk.Msg{spend}, coins("10umed"), A.Bech, "", "pay the burn address", "community pool spend to the burn address")
	if err != nil {
		panic(err)
	}
	ops = append(ops,
		txOp("FundCommunityPool(A,1000umed+9uoff)", s(A), distrtypes.NewMsgFundCommunityPool(coins("1000umed,9uoff"), A.Addr)),
		txOp("SubmitProposal(CommunityPoolSpend->burn,700umed+9uoff)", s(A), prop),
		txOp("Vote(A,proposal1,yes)", s(A), govv1.NewMsgVote(A.Addr, 1, govv1.OptionYes, "")),
	)
	// "uvch": a minor denomination of which A holds everything that exists; sending ALL of it to the burn address makes the
	// burn bring that denomination's supply to zero (bank then drops the supply record) - it must be burned like any other
	ops = append(ops,
		txOp("Send(A->burn,100uvch)", s(A), banktypes.NewMsgSend(A.Addr, burn, coins("100uvch"))),
		txOp("Send(A->burn,all-that-exists-of-uvch)", s(A), banktypes.NewMsgSend(A.Addr, burn, coins("600uvch"))),
	)
	// "uhuge": an amount close to the largest representable one (2^253 of a supply of 2^254: anything computed from it with a
	// multiplication overflows the 256-bit integer type)
	huge253 := sdk.NewIntFromBigInt(new(big.Int).Lsh(big.NewInt(1), 253))
	ops = append(ops, txOp("Send(A->burn,2^253uhuge)", s(A), banktypes.NewMsgSend(A.Addr, burn, sdk.NewCoins(sdk.NewCoin("uhuge", huge253)))))
	ops = append(ops, ctlOps("NB")...)
	sys := &explore.System{
		ID:     "C07",
		Stores: []string{"bank", "acc", "gov", "distribution", "aol"},
		Ops:    ops,
		Clone:  func(m any) any { return m },
		Fresh: func() (*world.World, any) {
			return world.New(world.Options{Accounts: []*world.Account{A, B}, ExtraCoins: sdk.NewCoins(sdk.NewCoin("ubig", big120.MulRaw(4)), sdk.NewInt64Coin("uoff", 1000)),
				Mutate: func(gs map[string]json.RawMessage, cdc codec.Codec) {
					// "uoff": a denomination whose transfers are disabled (bank send_enabled=false); it can still reach the burn
					// address through module-to-account routes, and must be burned like any other
					var bg banktypes.GenesisState
					cdc.MustUnmarshalJSON(gs["bank"], &bg)
					bg.SendEnabled = append(bg.SendEnabled, banktypes.SendEnabled{Denom: "uoff", Enabled: false})
					for i := range bg.Balances {
						if bg.Balances[i].Address == A.Bech {
							extra := sdk.NewCoins(sdk.NewInt64Coin("uvch", 600), sdk.NewCoin("uhuge", sdk.NewIntFromBigInt(new(big.Int).Lsh(big.NewInt(1), 254))))
							bg.Balances[i].Coins = bg.Balances[i].Coins.Add(extra...)
							bg.Supply = bg.Supply.Add(extra...)
						}
					}
					gs["bank"] = cdc.MustMarshalJSON(&bg)
					var g govv1.GenesisState
					cdc.MustUnmarshalJSON(gs["gov"], &g)
					vp := 5 * time.Second
					g.Params.VotingPeriod = &vp
					g.Params.MinDeposit = coins("10umed")
					gs["gov"] = cdc.MustMarshalJSON(&g)
				}}), nil
		},
	}
	sys.OnStep = func(st *explore.Step) {}
	sys.Outcome = func(st *explore.Step) string {
		cls := strings.SplitN(st.Op.Name, "(", 2)[0]
		if st.Res.Code == 0 {
			return cls + "/accepted"
		}
		return cls + "/rejected"
	}
	govAddrS, distrAddrS := govAddr.String(), authtypes.NewModuleAddress(distrtypes.ModuleName).String()
	sys.OnState = func(st *explore.State) {
		govAddr, distrAddr := govAddrS, distrAddrS
		w := st.W
		discard := w.Fork()
		defer discard()
		ctx := w.Ctx()
		balBefore, supBefore := allBalances(w)
		spendBefore := w.App.BankKeeper.SpendableCoins(ctx, burn)
		acct := "none"
		if acc := w.App.AccountKeeper.GetAccount(ctx, burn); acc != nil {
			acct = fmt.Sprintf("%T", acc)
			acct = acct[strings.LastIndex(acct, ".")+1:]
		}
		var res abci.ResponseEndBlock
		if p := guard(func() { res = w.EndBlock() }); p != "" {
			st.Fail("endblock-panic", "endblock-panic:burn-account="+acct, "EndBlock panicked: %s", firstLineOf(p))
			return
		}
		_ = res
		ctx = w.Ctx()
		balAfter, supAfter := allBalances(w)
		spendAfter := w.App.BankKeeper.SpendableCoins(ctx, burn)
		// (1) the spendable balance of the burn address is zero in every denomination
		if !spendAfter.IsZero() {
			st.Fail("not-emptied", "not-emptied:burn-account="+acct, "after EndBlock the burn address (%s) still has spendable %s (spendable before: %s, total %s)", acct, spendAfter, spendBefore, balAfter[burn.String()])
		}
		// Other modules' end blockers (a passed governance proposal paying out of the community pool) may move coins during
		// this very EndBlock. inflow = what left the accounts other than the burn address; it can only have gone to the burn
		// address (or been burned by it). Only the gov and distribution module accounts and the proposal's depositor may
		// change at all; everybody else must be untouched.
		out, in := sdk.Coins{}, sdk.Coins{}
		mayChange := map[string]bool{govAddr: true, distrAddr: true, A.Bech: true}
		all := map[string]bool{}
		for a := range balBefore {
			all[a] = true
		}
		for a := range balAfter {
			all[a] = true
		}
		for _, a := range sortedKeys(all) {
			if a == burn.String() || balBefore[a].IsEqual(balAfter[a]) {
				continue
			}
			if !mayChange[a] {
				st.Fail("other-balance", "other-balance", "EndBlock changed the balance of %s: %s -> %s", a, balBefore[a], balAfter[a])
				continue
			}
			// per denomination: what left this account and what it gained
			for _, c := range balBefore[a] {
				if d := c.Amount.Sub(balAfter[a].AmountOf(c.Denom)); d.IsPositive() {
					out = out.Add(sdk.NewCoin(c.Denom, d))
				}
			}
			for _, c := range balAfter[a] {
				if d := c.Amount.Sub(balBefore[a].AmountOf(c.Denom)); d.IsPositive() {
					in = in.Add(sdk.NewCoin(c.Denom, d))
				}
			}
		}
		inflow, neg := out.SafeSub(in...)
		if neg {
			st.Fail("other-balance", "other-balance:gain", "accounts other than the burn address gained more than they lost during EndBlock (lost %s, gained %s)", out, in)
			inflow = sdk.Coins{}
		}
		// (2) supply shrinks by exactly what was spendable at the burn address (plus what other end blockers paid into it)
		wantSup := supBefore.Sub(spendBefore...).Sub(inflow...)
		if !wantSup.IsEqual(supAfter) {
			st.Fail("supply", "supply:burn-account="+acct, "supply before %s, spendable at burn address %s, paid in during EndBlock %s, supply after %s (expected %s)", supBefore, spendBefore, inflow, supAfter, wantSup)
		}
		// (3) the burn address keeps only what it could not spend
		wantBurnBal := balBefore[burn.String()].Sub(spendBefore...)
		if !wantBurnBal.IsEqual(balAfter[burn.String()]) {
			st.Fail("burn-balance", "burn-balance:burn-account="+acct, "burn address balance %s -> %s, expected %s", balBefore[burn.String()], balAfter[burn.String()], wantBurnBal)
		}
		// (4) bank accounting identity and the other registered invariants
		if p := guard(func() { w.App.CrisisKeeper.AssertInvariants(ctx) }); p != "" {
			st.Fail("invariant", "invariant:burn-account="+acct, "registered chain invariant broken after EndBlock: %s", firstLineOf(p))
		}
	}
	return sys
}

func C07(t Tier) int {
	run := report.NewRun("C07", t.Name, "model_checking", "E1+E2")
	sys := c07System()
	// baseline: the genesis state itself must satisfy the invariants (otherwise the harness, not the code, is wrong)
	w0, _ := sys.Fresh()
	if p := guard(func() { w0.App.CrisisKeeper.AssertInvariants(w0.Ctx()) }); p != "" {
		fmt.Println("HARNESS ERROR: genesis violates invariants:", p)
		return 2
	}
	dl := deadline(t, 120*time.Second, 15*time.Minute)
	bounds := []explore.Bounds{{Depth: 3, V: 1, Deadline: dl}, {Depth: 4, V: 1, Deadline: dl}}
	if t.Thorough {
		bounds = []explore.Bounds{{Depth: 4, V: 1, Deadline: dl}, {Depth: 5, V: 1, Deadline: dl}, {Depth: 5, V: 2, Deadline: dl}, {Depth: 6, V: 2, Deadline: dl}}
	}
	RunGraph(run, sys, bounds, 6)
	run.Assumptions = []string{
		"deposit routes: MsgSend (dust, 10^12, second denom, two denoms, 2^120 of a genesis-only denom), MsgMultiSend, creation of delayed / continuous / permanent-locked / periodic vesting accounts at the burn address, plus unrelated traffic",
		"in every distinct state the real EndBlock is executed on a fork of the deliver state and observed immediately before/after (mint inflation and fee distribution happen in BeginBlock and cannot blur the arithmetic)",
		"vested amounts do not unlock within the explored horizon (end times years away)",
	}
	return run.Finish()
}
