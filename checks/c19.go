package checks

import (
	"bytes"
	"encoding/hex"
	"encoding/json"
	"fmt"
	"os"
	"path/filepath"
	"sort"
	"strings"

	dbm "github.com/cometbft/cometbft-db"
	"github.com/cometbft/cometbft/libs/log"
	"github.com/cosmos/cosmos-sdk/codec"
	"github.com/cosmos/cosmos-sdk/store/rootmulti"
	storetypes "github.com/cosmos/cosmos-sdk/store/types"
	sdk "github.com/cosmos/cosmos-sdk/types"
	upgradetypes "github.com/cosmos/cosmos-sdk/x/upgrade/types"
	aoltypes "github.com/medibloc/panacea-core/v2/x/aol/types"
	didtypes "github.com/medibloc/panacea-core/v2/x/did/types"
	pnfttypes "github.com/medibloc/panacea-core/v2/x/pnft/types"

	"github.com/medibloc/panacea-core/v2/app"

	"verif/engine/report"
	"verif/engine/world"
)

// ---- (1) dynamic: the scheduled upgrade on a populated chain, with restarts around the upgrade height ----

type c19Scenario struct {
	name          string
	setup         func(e *domEnv, w *world.World)
	initialHeight int64 // genesis initial_height (0 = default 1)
	mutate        func(gs map[string]json.RawMessage, cdc codec.Codec)
}

func c19Scenarios() []c19Scenario {
	s := func(a ...*world.Account) []*world.Account { return a }
	must := func(w *world.World, spec world.TxSpec) {
		if res := w.Send(spec); res.Code != 0 {
			panic("c19 setup: " + res.Log)
		}
	}
	return []c19Scenario{
		{name: "populated", setup: func(e *domEnv, w *world.World) {}},
		{name: "tombstone+transferred-token+handed-over-denom", setup: func(e *domEnv, w *world.World) {
			k := e.DidKey
			must(w, world.TxSpec{Msgs: []sdk.Msg{&didtypes.MsgDeactivateDIDRequest{Did: e.Did, VerificationMethodId: k.vmID(e.Did, 1), Signature: k.sign(&didtypes.DIDDocument{Id: e.Did}, 0, 1), FromAddress: e.A.Bech}}, Signers: s(e.A)})
			must(w, world.TxSpec{Msgs: []sdk.Msg{pnfttypes.NewMsgTransferPNFTRequest("d", "t", e.A.Bech, e.B.Bech)}, Signers: s(e.A)})
			must(w, world.TxSpec{Msgs: []sdk.Msg{pnfttypes.NewMsgTransferRequest("d", e.A.Bech, e.W.Bech)}, Signers: s(e.A)})
			must(w, world.TxSpec{Msgs: []sdk.Msg{aoltypes.NewMsgDeleteWriter("a", e.W.Bech, e.A.Bech)}, Signers: s(e.A)})
		}},
		{name: "same-topic-name-under-two-owners", setup: func(e *domEnv, w *world.World) {
			must(w, world.TxSpec{Msgs: []sdk.Msg{aoltypes.NewMsgCreateTopic("a", "", e.B.Bech)}, Signers: s(e.B)})
			must(w, world.TxSpec{Msgs: []sdk.Msg{aoltypes.NewMsgAddWriter("a", "", "", e.W.Bech, e.B.Bech)}, Signers: s(e.B)})
			must(w, world.TxSpec{Msgs: []sdk.Msg{aoltypes.NewMsgAddWriter("a", "", "", e.F.Bech, e.B.Bech)}, Signers: s(e.B)})
			must(w, world.TxSpec{Msgs: []sdk.Msg{pnfttypes.NewMsgCreateDenomRequest("dd", "S", "n", "", "", "", e.B.Bech, "")}, Signers: s(e.B)})
			must(w, world.TxSpec{Msgs: []sdk.Msg{pnfttypes.NewMsgMintPNFTRequest("dd", "t", "same token id in another denom", "", "", "", e.B.Bech, "")}, Signers: s(e.B)})
		}},
		{name: "removed-denom-d+live-denoms-dd-and-d-x", setup: func(e *domEnv, w *world.World) {
			// denom d: its only token burned, then the denom deleted (x/nft keeps a zero supply counter); live denoms whose ids
			// have "d" as a strict prefix hold tokens; removed topic writers and a prefix-related topic name as well
			must(w, world.TxSpec{Msgs: []sdk.Msg{pnfttypes.NewMsgCreateDenomRequest("dd", "S", "n", "", "", "", e.B.Bech, "data")}, Signers: s(e.B)})
			must(w, world.TxSpec{Msgs: []sdk.Msg{pnfttypes.NewMsgMintPNFTRequest("dd", "t", "tok", "", "", "", e.B.Bech, "")}, Signers: s(e.B)})
			must(w, world.TxSpec{Msgs: []sdk.Msg{pnfttypes.NewMsgMintPNFTRequest("dd", "t2", "tok2", "", "", "", e.B.Bech, "")}, Signers: s(e.B)})
			must(w, world.TxSpec{Msgs: []sdk.Msg{pnfttypes.NewMsgCreateDenomRequest("d-x", "S", "n", "", "", "", e.A.Bech, "")}, Signers: s(e.A)})
			must(w, world.TxSpec{Msgs: []sdk.Msg{pnfttypes.NewMsgMintPNFTRequest("d-x", "t", "tok", "", "", "", e.A.Bech, "")}, Signers: s(e.A)})
			must(w, world.TxSpec{Msgs: []sdk.Msg{pnfttypes.NewMsgBurnPNFTRequest("d", "t", e.A.Bech)}, Signers: s(e.A)})
			must(w, world.TxSpec{Msgs: []sdk.Msg{pnfttypes.NewMsgDeleteDenomRequest("d", e.A.Bech)}, Signers: s(e.A)})
			must(w, world.TxSpec{Msgs: []sdk.Msg{aoltypes.NewMsgCreateTopic("ab", "", e.A.Bech)}, Signers: s(e.A)})
			must(w, world.TxSpec{Msgs: []sdk.Msg{aoltypes.NewMsgAddWriter("ab", "", "", e.W.Bech, e.A.Bech)}, Signers: s(e.A)})
			must(w, world.TxSpec{Msgs: []sdk.Msg{aoltypes.NewMsgDeleteWriter("a", e.W.Bech, e.A.Bech)}, Signers: s(e.A)})
		}},
		{name: "chain-continued-from-an-export(initial_height=1000)", setup: func(e *domEnv, w *world.World) {}, initialHeight: 1000},
		// genesis-injected AOL owners with boundary address bytes (ending in 0xFF, all 0xFF, all 0x00, 32 bytes), several topics,
		// DIDs with several tombstones: whatever repair / recount / migration an upgrade runs must leave them as they are
		{name: "boundary-owner-addresses+tombstones(genesis)", setup: func(e *domEnv, w *world.World) {}, mutate: func(gs map[string]json.RawMessage, cdc codec.Codec) {
			ff := append(bytes.Repeat([]byte{0x42}, 19), 0xFF)
			in := &aolInject{Owners: [][]byte{ff, bytes.Repeat([]byte{0xFF}, 20), bytes.Repeat([]byte{0x00}, 20), bytes.Repeat([]byte{0xFF}, 32)}, Topics: []string{"a", "ab", "b"}}
			in.mutate(gs, cdc)
			k := newDidEnv()
			docs := bulkDIDs(k, 9)
			for i, did := range sortedKeys(docs) {
				if i%3 == 1 {
					docs[did] = &didtypes.DIDDocumentWithSeq{Document: &didtypes.DIDDocument{}, Sequence: uint64(1 + i)}
				}
			}
			gs["did"] = cdc.MustMarshalJSON(&didtypes.GenesisState{Documents: docs})
			// PNFT holders with boundary address bytes too (x/nft's owner index separates key components by a 0x00 byte)
			e := newDomEnv()
			pg := pnfttypes.GenesisState{Denoms: []*pnfttypes.Denom{{Id: "gz", Name: "n", Symbol: "S", Owner: e.A.Bech}}}
			zeroMid := append(append(bytes.Repeat([]byte{0x33}, 9), 0x00), bytes.Repeat([]byte{0x44}, 10)...)
			for i, holder := range [][]byte{zeroMid, bytes.Repeat([]byte{0x00}, 20), ff, append([]byte{0x00}, bytes.Repeat([]byte{0x55}, 19)...), append(bytes.Repeat([]byte{0x66}, 19), 0x00)} {
				pg.Pnfts = append(pg.Pnfts, &pnfttypes.Pnft{DenomId: "gz", Id: fmt.Sprintf("z%d", i), Name: "tok", Creator: e.A.Bech, Owner: sdk.AccAddress(holder).String(), CreatedAt: world.BaseTime})
			}
			gs["pnft"] = cdc.MustMarshalJSON(&pg)
		}},
		{name: "malformed-did-update-attempted", setup: func(e *domEnv, w *world.World) {
			// an owner-signed update to a document with a dangling relationship: refused by a correct chain; if a tree stores it,
			// whatever the upgrade does with the stored state must still complete
			k := e.DidKey
			doc := k.doc("D1", e.Did)
			doc.AssertionMethods = []didtypes.VerificationRelationship{didtypes.NewVerificationRelationship(k.vmID(e.Did, 2))}
			w.Send(world.TxSpec{Msgs: []sdk.Msg{&didtypes.MsgUpdateDIDRequest{Did: e.Did, Document: doc, VerificationMethodId: k.vmID(e.Did, 1), Signature: k.sign(doc, 0, 1), FromAddress: e.A.Bech}}, Signers: s(e.A)})
			noAuth := k.doc("D1", e.Did)
			noAuth.Authentications = nil
			w.Send(world.TxSpec{Msgs: []sdk.Msg{&didtypes.MsgUpdateDIDRequest{Did: e.Did, Document: noAuth, VerificationMethodId: k.vmID(e.Did, 1), Signature: k.sign(noAuth, 0, 1), FromAddress: e.A.Bech}}, Signers: s(e.A)})
		}},
		{name: "many-records", setup: func(e *domEnv, w *world.World) {
			for i := 0; i < 5; i++ {
				must(w, world.TxSpec{Msgs: []sdk.Msg{aoltypes.NewMsgAddRecordRequest("a", []byte{byte(i)}, []byte(strings.Repeat("v", i)), e.W.Bech, e.A.Bech, "")}, Signers: s(e.W)})
			}
		}},
	}
}

type c19Obs struct {
	hashes []string // app hashes of H-1, H, H+1, H+2
	dumps  []string // custom store hash at H-1, at H before traffic, after H, after H+2
	done   int64
	vmOK   string
}

const c19Plan = "v2.2.1"

// restart points
var c19Points = []string{"none", "before-H", "before-H-twice", "H-after-BeginBlock", "H-after-EndBlock", "after-Commit-H", "after-H+1"}

func customHash(w *world.World) string {
	h := w.StoreHash("aol", "did", "pnft")
	return hex.EncodeToString(h[:12])
}

// c19Run executes one scenario with one restart point; returns observations or an error description.
func c19Run(e *domEnv, sc c19Scenario, point string) (obs c19Obs, fail string) {
	home := world.NewHome()
	defer os.RemoveAll(home)
	nUp := len(app.Upgrades)
	oldOpts := world.Options{Accounts: []*world.Account{e.A, e.B, e.W, e.F}, Home: home, DB: dbm.NewMemDB(), Upgrades: nUp - 1, InitialHeight: sc.initialHeight, Mutate: sc.mutate}
	w := populatedOpts(e, oldOpts)
	sc.setup(e, w)
	H := w.Height + 2
	w.AsWrittenByPredecessor()
	if err := w.App.UpgradeKeeper.ScheduleUpgrade(w.Ctx(), upgradetypes.Plan{Name: c19Plan, Height: H}); err != nil {
		return obs, "HARNESS: cannot schedule upgrade: " + err.Error()
	}
	w.NextBlock() // now in H-1
	traffic := func(i int) {
		res := w.Send(world.TxSpec{Msgs: []sdk.Msg{aoltypes.NewMsgCreateTopic(fmt.Sprintf("up%d", i), "", e.B.Bech)}, Signers: []*world.Account{e.B}, Fee: aolFee})
		if res.Code != 0 {
			fail = fmt.Sprintf("custom traffic at height %d failed: %s", w.Height, firstLineOf(res.Log))
		}
	}
	traffic(0)
	w.EndBlock()
	obs.hashes = append(obs.hashes, hex.EncodeToString(w.Commit()))
	obs.dumps = append(obs.dumps, customHash(w))
	if point == "before-H" || point == "before-H-twice" {
		w.Reopen()
		if point == "before-H-twice" {
			w.Reopen()
		}
	}
	// the old binary reaches H: UPGRADE NEEDED + upgrade-info.json
	p := guard(func() { w.BeginBlock() })
	if !strings.Contains(p, "UPGRADE") {
		return obs, "HARNESS: old binary did not stop at the upgrade height: " + firstLineOf(p)
	}
	if _, err := os.Stat(filepath.Join(home, "data", "upgrade-info.json")); err != nil {
		return obs, "HARNESS: upgrade-info.json not written: " + err.Error()
	}
	// the new binary
	w.Opts.Upgrades = 0
	if p := guard(func() { w.Reopen() }); p != "" {
		return obs, "the new binary cannot start at the upgrade height: " + firstLineOf(p)
	}
	if w.Height != H-1 {
		return obs, fmt.Sprintf("new binary opened at height %d, expected %d", w.Height, H-1)
	}
	if p := guard(func() { w.BeginBlock() }); p != "" {
		return obs, "upgrade block panicked in BeginBlock: " + firstLineOf(p)
	}
	if point == "H-after-BeginBlock" {
		if p := guard(func() { w.Reopen() }); p != "" {
			return obs, "the new binary cannot restart at the upgrade height: " + firstLineOf(p)
		}
		if p := guard(func() { w.BeginBlock() }); p != "" {
			return obs, "upgrade block panicked in BeginBlock after a restart at H: " + firstLineOf(p)
		}
	}
	obs.dumps = append(obs.dumps, customHash(w)) // at H, before the block's own traffic
	traffic(1)
	if p := guard(func() { w.EndBlock() }); p != "" {
		return obs, "upgrade block panicked in EndBlock: " + firstLineOf(p)
	}
	if point == "H-after-EndBlock" {
		if p := guard(func() { w.Reopen() }); p != "" {
			return obs, "the new binary cannot restart at the upgrade height: " + firstLineOf(p)
		}
		if p := guard(func() { w.BeginBlock(); traffic(1); w.EndBlock() }); p != "" {
			return obs, "upgrade block panicked when re-executed after a restart before Commit: " + firstLineOf(p)
		}
	}
	obs.hashes = append(obs.hashes, hex.EncodeToString(w.Commit()))
	obs.dumps = append(obs.dumps, customHash(w))
	if point == "after-Commit-H" {
		if p := guard(func() { w.Reopen() }); p != "" {
			return obs, "the new binary cannot restart after the upgrade block: " + firstLineOf(p)
		}
	}
	for i := 2; i <= 3; i++ {
		if p := guard(func() { w.BeginBlock(); traffic(i); w.EndBlock() }); p != "" {
			return obs, fmt.Sprintf("block H+%d panicked: %s", i-1, firstLineOf(p))
		}
		obs.hashes = append(obs.hashes, hex.EncodeToString(w.Commit()))
		if i == 2 && point == "after-H+1" {
			if p := guard(func() { w.Reopen() }); p != "" {
				return obs, "the new binary cannot restart after H+1: " + firstLineOf(p)
			}
		}
	}
	obs.dumps = append(obs.dumps, customHash(w))
	ctx := w.Ctx()
	obs.done = w.App.UpgradeKeeper.GetDoneHeight(ctx, c19Plan)
	if obs.done != H {
		return obs, fmt.Sprintf("done height of %s is %d, expected %d", c19Plan, obs.done, H)
	}
	// module versions recorded
	stored := w.App.UpgradeKeeper.GetModuleVersionMap(ctx)
	want := w.App.ModuleManager.GetVersionMap()
	var diffs []string
	for m, v := range want {
		if stored[m] != v {
			diffs = append(diffs, fmt.Sprintf("%s stored=%d binary=%d", m, stored[m], v))
		}
	}
	sort.Strings(diffs)
	obs.vmOK = strings.Join(diffs, "; ")
	if obs.vmOK != "" {
		return obs, "module version map incomplete after the upgrade: " + obs.vmOK
	}
	return obs, fail
}

func populatedOpts(e *domEnv, opts world.Options) *world.World {
	w := world.New(opts)
	must := func(spec world.TxSpec) {
		res := w.Send(spec)
		if res.Code != 0 {
			panic("populated: setup tx failed: " + res.Log)
		}
	}
	s := func(a ...*world.Account) []*world.Account { return a }
	must(world.TxSpec{Msgs: []sdk.Msg{aoltypes.NewMsgCreateTopic("a", "desc", e.A.Bech)}, Signers: s(e.A)})
	must(world.TxSpec{Msgs: []sdk.Msg{aoltypes.NewMsgAddWriter("a", "w", "", e.W.Bech, e.A.Bech)}, Signers: s(e.A)})
	must(world.TxSpec{Msgs: []sdk.Msg{aoltypes.NewMsgAddRecordRequest("a", []byte("k"), []byte("v"), e.W.Bech, e.A.Bech, "")}, Signers: s(e.W)})
	k := e.DidKey
	doc := k.doc("D1", e.Did)
	must(world.TxSpec{Msgs: []sdk.Msg{&didtypes.MsgCreateDIDRequest{Did: e.Did, Document: doc, VerificationMethodId: k.vmID(e.Did, 1), Signature: k.sign(doc, 0, 1), FromAddress: e.A.Bech}}, Signers: s(e.A)})
	must(world.TxSpec{Msgs: []sdk.Msg{pnfttypes.NewMsgCreateDenomRequest("d", "SYM", "name", "", "", "", e.A.Bech, "")}, Signers: s(e.A)})
	must(world.TxSpec{Msgs: []sdk.Msg{pnfttypes.NewMsgMintPNFTRequest("d", "t", "tok", "", "", "", e.A.Bech, "")}, Signers: s(e.A)})
	return w
}

// ---- (2) configuration: the store algebra of the ordered upgrade descriptors vs the mounted stores ----

// storesBeforeFirstDescriptor: stores that predate v2.0.5 - the modules named in that handler's hand-written fromVM
// minus store-less modules (vesting, genutil, crisis had no store then), with auth's store key "acc", plus the store
// that only the descriptors mention as deleted ("token"; "wasm" is in fromVM).
func storesBeforeFirstDescriptor() []string {
	return []string{"acc", "bank", "capability", "distribution", "evidence", "gov", "mint", "params", "slashing", "staking", "upgrade", "ibc", "transfer", "aol", "did", "burn", "wasm", "token"}
}

func c19Config(fail func(kind, sig, format string, a ...any)) (steps int, samples []any) {
	cur := map[string]bool{}
	for _, s := range storesBeforeFirstDescriptor() {
		cur[s] = true
	}
	everAdded := map[string]string{}
	names := func(m map[string]bool) []string {
		var out []string
		for k := range m {
			out = append(out, k)
		}
		sort.Strings(out)
		return out
	}
	realStarts := 0
	for ui, u := range app.Upgrades {
		prev := names(cur)
		for _, d := range u.StoreUpgrades.Deleted {
			if !cur[d] {
				fail("descriptor", "descriptor:deletes-unknown:"+u.UpgradeName+":"+d, "upgrade %s deletes store %q which does not exist at that point", u.UpgradeName, d)
			}
			if by, ok := everAdded[d]; ok {
				fail("descriptor", "descriptor:added-then-deleted:"+d, "store %q is introduced by %s and removed again by %s", d, by, u.UpgradeName)
			}
			delete(cur, d)
		}
		for _, a := range u.StoreUpgrades.Added {
			if cur[a] {
				fail("descriptor", "descriptor:added-twice:"+u.UpgradeName+":"+a, "upgrade %s adds store %q which already exists", u.UpgradeName, a)
			}
			cur[a] = true
			everAdded[a] = u.UpgradeName
		}
		for _, r := range u.StoreUpgrades.Renamed {
			if !cur[r.OldKey] {
				fail("descriptor", "descriptor:renames-unknown:"+u.UpgradeName, "upgrade %s renames unknown store %q", u.UpgradeName, r.OldKey)
			}
			delete(cur, r.OldKey)
			cur[r.NewKey] = true
		}
		next := names(cur)
		// validate the step against the real rootmulti store
		su := u.StoreUpgrades
		if why := c19StoreStep(prev, next, &su); why != "" {
			fail("store-step", "store-step:"+u.UpgradeName, "upgrade %s: %s", u.UpgradeName, why)
		}
		// the binary's OWN choice of store loader: if no later descriptor changes stores, this binary can be started on a
		// database with the store set before this descriptor, exactly at the upgrade height (upgrade-info.json on disk)
		laterChanges := false
		for _, l := range app.Upgrades[ui+1:] {
			if len(l.StoreUpgrades.Added)+len(l.StoreUpgrades.Deleted)+len(l.StoreUpgrades.Renamed) > 0 {
				laterChanges = true
			}
		}
		if !laterChanges {
			if why := c19RealStart(prev, u.UpgradeName); why != "" {
				fail("store-step", "real-start:"+u.UpgradeName, "starting this binary at the height of upgrade %s on the store set before it: %s", u.UpgradeName, why)
			}
			realStarts++
		}
		steps++
		samples = append(samples, map[string]any{"upgrade": u.UpgradeName, "added": u.StoreUpgrades.Added, "deleted": u.StoreUpgrades.Deleted, "stores_after": len(next)})
	}
	// the set must end exactly at what the binary mounts
	e := newDomEnv()
	w := world.New(world.Options{Accounts: []*world.Account{e.A}})
	mounted := map[string]bool{}
	for name := range w.App.GetKVStoreKey() {
		mounted[name] = true
	}
	for s := range mounted {
		if !cur[s] {
			fail("undeclared-store", "undeclared-store:"+s, "the binary mounts store %q, which neither predates the first descriptor nor is introduced by any upgrade descriptor", s)
		}
	}
	for s := range cur {
		if !mounted[s] {
			fail("unmounted-store", "unmounted-store:"+s, "after all descriptors store %q should exist, but the binary does not mount it", s)
		}
	}
	_ = realStarts
	return steps, samples
}

// c19StoreStep commits a real rootmulti store with the `prev` store set, then reloads it with the `next` set through
// upgradetypes.UpgradeStoreLoader (must succeed) and without it (must fail when stores were added - proves non-vacuity).
func c19StoreStep(prev, next []string, su *storetypes.StoreUpgrades) string {
	db := dbm.NewMemDB()
	mount := func(names []string) (*rootmulti.Store, map[string]*storetypes.KVStoreKey) {
		ms := rootmulti.NewStore(db, log.NewNopLogger())
		keys := map[string]*storetypes.KVStoreKey{}
		for _, n := range names {
			k := storetypes.NewKVStoreKey(n)
			keys[n] = k
			ms.MountStoreWithDB(k, storetypes.StoreTypeIAVL, nil)
		}
		return ms, keys
	}
	ms, keys := mount(prev)
	if err := ms.LoadLatestVersion(); err != nil {
		return "HARNESS: cannot load initial store set: " + err.Error()
	}
	for n, k := range keys {
		ms.GetCommitKVStore(k).Set([]byte("k"), []byte(n))
	}
	ms.Commit()
	ms.Commit()
	h := ms.LastCommitID().Version
	// with the descriptor
	ms2, keys2 := mount(next)
	if err := upgradetypes.UpgradeStoreLoader(h+1, su)(ms2); err != nil {
		return fmt.Sprintf("loading the new store set with the descriptor fails: %v", err)
	}
	for n, k := range keys2 {
		got := ms2.GetCommitKVStore(k).Get([]byte("k"))
		isNew := true
		for _, p := range prev {
			if p == n {
				isNew = false
			}
		}
		if !isNew && string(got) != n {
			return fmt.Sprintf("store %q lost its data across the upgrade", n)
		}
	}
	ms2.Commit()
	// without the descriptor (a plain restart of the new binary) - must fail iff stores are added
	db2 := dbm.NewMemDB()
	_ = db2
	msA, keysA := func() (*rootmulti.Store, map[string]*storetypes.KVStoreKey) {
		d := dbm.NewMemDB()
		m := rootmulti.NewStore(d, log.NewNopLogger())
		ks := map[string]*storetypes.KVStoreKey{}
		for _, n := range prev {
			k := storetypes.NewKVStoreKey(n)
			ks[n] = k
			m.MountStoreWithDB(k, storetypes.StoreTypeIAVL, nil)
		}
		if err := m.LoadLatestVersion(); err != nil {
			panic(err)
		}
		for n, k := range ks {
			m.GetCommitKVStore(k).Set([]byte("k"), []byte(n))
		}
		m.Commit()
		m.Commit()
		m3 := rootmulti.NewStore(d, log.NewNopLogger())
		for _, n := range next {
			m3.MountStoreWithDB(storetypes.NewKVStoreKey(n), storetypes.StoreTypeIAVL, nil)
		}
		return m3, ks
	}()
	_ = keysA
	err := msA.LoadLatestVersion()
	if len(su.Added) > 0 && err == nil {
		return "HARNESS: a new store set loaded without its descriptor although stores were added (the store-step check would be vacuous)"
	}
	return ""
}

func C19(t Tier) int {
	run := report.NewRun("C19", t.Name, "model_checking", "E1+E5")
	e := newDomEnv()
	fail := func(kind, sig, format string, a ...any) {
		run.Add(report.Viol{Kind: kind, Sig: sig, Msg: fmt.Sprintf(format, a...), Replay: map[string]any{"check": "C19", "case": sig}})
	}
	states, transitions := 0, 0
	var samples []any
	for _, sc := range c19Scenarios() {
		var ref c19Obs
		for pi, point := range c19Points {
			obs, why := c19Run(e, sc, point)
			transitions++
			states += len(obs.hashes)
			if strings.HasPrefix(why, "HARNESS") {
				fmt.Fprintln(os.Stderr, "HARNESS ERROR:", why)
				return 2
			}
			if why != "" {
				fail("upgrade", "upgrade:"+point+":"+firstWords(why, 5), "scenario %s, restart point %s: %s", sc.name, point, why)
				continue
			}
			// custom data untouched by the upgrade block
			if obs.dumps[0] != obs.dumps[1] {
				fail("data-changed", "data-changed:"+point, "scenario %s, restart point %s: AOL/DID/PNFT data at the upgrade height differ from the data before the upgrade", sc.name, point)
			}
			if pi == 0 {
				ref = obs
				samples = append(samples, map[string]any{"scenario": sc.name, "app_hashes_Hminus1_to_Hplus2": obs.hashes, "done_height": obs.done})
				continue
			}
			if strings.Join(obs.hashes, ",") != strings.Join(ref.hashes, ",") {
				fail("restart-divergence", "restart-divergence:"+point, "scenario %s: with a restart %s the app hashes %v differ from the never-restarted twin %v", sc.name, point, obs.hashes, ref.hashes)
			}
			if strings.Join(obs.dumps, ",") != strings.Join(ref.dumps, ",") {
				fail("restart-divergence", "restart-divergence-data:"+point, "scenario %s: with a restart %s the custom-module data differ from the never-restarted twin", sc.name, point)
			}
		}
	}
	steps, cfgSamples := c19Config(fail)
	samples = append(samples, cfgSamples...)
	run.Coverage["states"] = max(1, states)
	run.Coverage["transitions"] = transitions + steps
	run.Coverage["traces_validated_against_impl"] = transitions
	run.Coverage["scenarios"] = len(c19Scenarios())
	run.Coverage["restart_points"] = c19Points
	run.Coverage["descriptor_steps_validated_on_rootmulti"] = steps
	run.Coverage["samples"] = samples
	run.Coverage["exhaustive"] = true
	run.Assumptions = []string{
		"old binary = this binary with the last entry of app.Upgrades removed (no handler and no store loader for v2.2.1); the plan is scheduled through the real upgrade keeper",
		"stores that predate the first descriptor are pinned from the v2.0.5 handler's hand-written fromVM (minus store-less modules) plus the stores the descriptors delete",
		"every descriptor step is validated against the real rootmulti store: reload with UpgradeStoreLoader succeeds, reload without it fails when stores are added",
	}
	return run.Finish()
}

// c19RealStart: a database holding the store set `prev` (three committed versions with data), upgrade-info.json naming
// `plan` at the next height, and the real application constructor: loading must succeed.
func c19RealStart(prev []string, plan string) string {
	db := dbm.NewMemDB()
	ms := rootmulti.NewStore(db, log.NewNopLogger())
	keys := map[string]*storetypes.KVStoreKey{}
	for _, n := range prev {
		k := storetypes.NewKVStoreKey(n)
		keys[n] = k
		ms.MountStoreWithDB(k, storetypes.StoreTypeIAVL, nil)
	}
	if err := ms.LoadLatestVersion(); err != nil {
		return "HARNESS: cannot load initial store set: " + err.Error()
	}
	for v := 0; v < 3; v++ {
		for n, k := range keys {
			ms.GetCommitKVStore(k).Set([]byte(fmt.Sprintf("k%d", v)), []byte(n))
		}
		ms.Commit()
	}
	h := ms.LastCommitID().Version
	home := world.NewHome()
	defer os.RemoveAll(home)
	if err := os.MkdirAll(filepath.Join(home, "data"), 0o755); err != nil {
		return "HARNESS: " + err.Error()
	}
	info := fmt.Sprintf(`{"name":%q,"height":%d}`, plan, h+1)
	if err := os.WriteFile(filepath.Join(home, "data", "upgrade-info.json"), []byte(info), 0o644); err != nil {
		return "HARNESS: " + err.Error()
	}
	if err := world.StartOnDatabase(db, home); err != nil {
		return firstLineOf(err.Error())
	}
	return ""
}
