package checks

import (
	"encoding/json"
	"fmt"
	"os"
	"os/exec"
	"strings"

	"verif/engine/explore"
)

var Registry = map[string]func(Tier) int{
	"C01": C01,
	"C02": C02,
	"C13": C13,
	"C03": C03,
	"C04": C04,
	"C05": C05,
	"C11": C11,
	"C06": C06,
	"C12": C12,
	"C18": C18,
	"C16": C16,
	"C17": C17,
	"C14": C14,
	"C15": C15,
	"C07": C07,
	"C08": C08,
	"C09": C09,
	"C10": C10,
	"C19": C19,
	"C20": C20,
}

// Systems used by `pcheck replay` to re-execute graph replays by name.
var graphSystems = map[string]func() *explore.System{}

func registerSystem(id string, f func() *explore.System) { graphSystems[id] = f }

// ReplayFile re-executes a replay file sequentially on a fresh World, without forks or the explorer.
func ReplayFile(path string) int {
	bz, err := os.ReadFile(path)
	if err != nil {
		fmt.Fprintln(os.Stderr, err)
		return 2
	}
	var f struct {
		Property  string         `json:"property"`
		Signature string         `json:"signature"`
		Replay    map[string]any `json:"replay"`
	}
	if err := json.Unmarshal(bz, &f); err != nil {
		fmt.Fprintln(os.Stderr, err)
		return 2
	}
	if eng, _ := f.Replay["engine"].(string); eng == "E4" {
		si := fmt.Sprint(f.Replay["scenario_index"])
		cmd := exec.Command(sibling("kscheck"), "replay", si, fmt.Sprint(f.Replay["choices"]))
		out, err := cmd.CombinedOutput()
		fmt.Print(string(out))
		if strings.Contains(string(out), "VIOLATION kind=") {
			fmt.Printf("VIOLATION property=%s replay=%s\n", f.Property, path)
			return 1
		}
		if err != nil {
			return 2
		}
		return 0
	}
	sysID, _ := f.Replay["system"].(string)
	mk, ok := graphSystems[sysID]
	if !ok {
		if c, ok := f.Replay["check"]; ok {
			fmt.Printf("replay: this is an input-enumeration case of check %v (%v); it is re-evaluated by `./run.sh %s quick`\n", c, f.Replay, f.Property)
			return 0
		}
		fmt.Fprintf(os.Stderr, "replay: no graph system %q (non-graph replays are re-run by their check)\n", sysID)
		return 2
	}
	sys := mk()
	var names []string
	for _, x := range f.Replay["ops"].([]any) {
		names = append(names, x.(string))
	}
	idx, err := explore.PathIndices(sys, names)
	if err != nil {
		fmt.Fprintln(os.Stderr, err)
		return 2
	}
	_, _, vs, err := explore.Replay(sys, idx, true)
	if err != nil {
		fmt.Fprintln(os.Stderr, "replay error:", err)
		return 2
	}
	for _, v := range vs {
		fmt.Printf("replayed violation: kind=%s sig=%s\n  %s\n", v.Kind, v.Sig, v.Msg)
	}
	for _, v := range vs {
		if v.Sig == f.Signature {
			fmt.Printf("VIOLATION property=%s replay=%s\n", f.Property, path)
			return 1
		}
	}
	fmt.Println("replay: recorded signature not reproduced")
	return 0
}

func init() {
	ShardFuncs["C09"] = c09Shard
	ShardFuncs["C10"] = c10Shard
	ShardFuncs["C20"] = c20Shard
}

func init() {
	registerSystem("C01", func() *explore.System {
		return aolSystem(aolVariant{ID: "C01", OwnRec: true, Ctl: []string{"NB", "RS", "XI"}})
	})
	registerSystem("C01/big", func() *explore.System {
		acc := aolAccs()
		return aolSystem(aolVariant{ID: "C01/big", OwnRec: true, Ctl: []string{"NB", "XI"}, Inject: &aolInject{Big: &aolBig{Owner: acc.A, Writer: acc.W, Name: "a", N: 255}}})
	})
	registerSystem("C02", func() *explore.System {
		return aolSystem(aolVariant{ID: "C02", Forged: true, OwnACL: true, Ctl: []string{"NB"}})
	})
	registerSystem("C13/init0", func() *explore.System {
		return aolSystem(aolVariant{ID: "C13/init0", OwnCount: true, Ctl: []string{"NB", "XI"}})
	})
	registerSystem("C13/init1", func() *explore.System {
		return aolSystem(aolVariant{ID: "C13/init1", OwnCount: true, Ctl: []string{"NB", "XI"}, Inject: c13Inject()})
	})
	registerSystem("C03", func() *explore.System { return didSystem(didVariant{ID: "C03", Ctl: []string{"NB", "RS", "XI"}}) })
	registerSystem("C04", func() *explore.System {
		return didSystem(didVariant{ID: "C04", Replays: true, EmptyID: true, Small: true, Ctl: []string{"NB", "RS", "XI"}})
	})
	registerSystem("C05", func() *explore.System {
		return didSystem(didVariant{ID: "C05", EmptyID: true, Ctl: []string{"NB", "RS", "XI"}})
	})
	registerSystem("C05/bulk", func() *explore.System {
		return didSystem(didVariant{ID: "C05/bulk", Bulk: 120, Small: true, Ctl: []string{"XI", "RS"}})
	})
	registerSystem("C11", func() *explore.System {
		return didSystem(didVariant{ID: "C11", Mismatch: true, EmptyID: true, StrictID: true, Small: true, Ctl: []string{"NB", "XI"}})
	})
	registerSystem("C06", func() *explore.System {
		return pnftSystem(pnftVariant{ID: "C06", Auth: true, StrictDelete: true, Ctl: []string{"NB", "XI"}})
	})
	registerSystem("C12", func() *explore.System {
		return pnftSystem(pnftVariant{ID: "C12", Wide: true, Queries: true, StrictDelete: true, Ctl: []string{"NB", "XI"}})
	})
	registerSystem("C07", c07System)
	registerSystem("C08/empty", func() *explore.System { return c08System("empty") })
	registerSystem("C08/bulk", func() *explore.System { return c08System("bulk") })
	registerSystem("C08/populated", func() *explore.System { return c08System("populated") })
}
