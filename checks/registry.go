package checks

import (
	"encoding/json"
	"fmt"
	"os"

	"verif/engine/explore"
)

var Registry = map[string]func(Tier) int{
	"C01": C01,
	"C02": C02,
	"C13": C13,
	"C03": C03,
	"C04": C04,
	"C05": C05,
	"C11": C11,
	"C06": C06,
	"C12": C12,
	"C18": C18,
	"C16": C16,
	"C17": C17,
	"C14": C14,
	"C15": C15,
	"C07": C07,
	"C08": C08,
	"C09": C09,
	"C10": C10,
	"C19": C19,
}

// Systems used by `pcheck replay` to re-execute graph replays by name.
var graphSystems = map[string]func() *explore.System{}

func registerSystem(id string, f func() *explore.System) { graphSystems[id] = f }

// ReplayFile re-executes a replay file sequentially on a fresh World, without forks or the explorer.
func ReplayFile(path string) int {
	bz, err := os.ReadFile(path)
	if err != nil {
		fmt.Fprintln(os.Stderr, err)
		return 2
	}
	var f struct {
		Property  string         `json:"property"`
		Signature string         `json:"signature"`
		Replay    map[string]any `json:"replay"`
	}
	if err := json.Unmarshal(bz, &f); err != nil {
		fmt.Fprintln(os.Stderr, err)
		return 2
	}
	sysID, _ := f.Replay["system"].(string)
	mk, ok := graphSystems[sysID]
	if !ok {
		fmt.Fprintf(os.Stderr, "replay: no graph system %q (non-graph replays are re-run by their check)\n", sysID)
		return 2
	}
	sys := mk()
	var names []string
	for _, x := range f.Replay["ops"].([]any) {
		names = append(names, x.(string))
	}
	idx, err := explore.PathIndices(sys, names)
	if err != nil {
		fmt.Fprintln(os.Stderr, err)
		return 2
	}
	_, _, vs, err := explore.Replay(sys, idx, true)
	if err != nil {
		fmt.Fprintln(os.Stderr, "replay error:", err)
		return 2
	}
	for _, v := range vs {
		fmt.Printf("replayed violation: kind=%s sig=%s\n  %s\n", v.Kind, v.Sig, v.Msg)
	}
	for _, v := range vs {
		if v.Sig == f.Signature {
			fmt.Printf("VIOLATION property=%s replay=%s\n", f.Property, path)
			return 1
		}
	}
	fmt.Println("replay: recorded signature not reproduced")
	return 0
}

func init() {
	ShardFuncs["C09"] = c09Shard
	ShardFuncs["C10"] = c10Shard
}
