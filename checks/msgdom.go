package checks

import (
	"bytes"
	"fmt"
	"regexp"
	"strings"
	"unicode/utf8"

	sdk "github.com/cosmos/cosmos-sdk/types"
	"github.com/cosmos/cosmos-sdk/types/bech32"
	aoltypes "github.com/medibloc/panacea-core/v2/x/aol/types"
	didtypes "github.com/medibloc/panacea-core/v2/x/did/types"
	pnfttypes "github.com/medibloc/panacea-core/v2/x/pnft/types"

	"verif/engine/world"
)

// E3 input domains for the 14 custom message types. A domain is a list of fields, each with a list of
// classes (label + setter). The engine walks the full Cartesian product.

type fclass struct {
	Label string
	Set   func(m sdk.Msg)
	Odd   bool // not the default/"plain valid" class (used for deviation counting)
}

type fdom struct {
	Name    string
	Classes []fclass
}

type msgDom struct {
	Name   string
	New    func() sdk.Msg
	Fields []fdom
	Ref    func(m sdk.Msg) bool // hand-written reference validator (from the published limits)
	// Signers for an E1 delivery attempt of this message (actor named in well-formed classes is A; record writer W)
	Signers func(e *domEnv) []*world.Account
}

type domEnv struct {
	A, B, W, F *world.Account
	Did        string
	DidKey     *didEnv
}

func newDomEnv() *domEnv {
	de := newDidEnv()
	return &domEnv{A: world.NewAccount("A"), B: world.NewAccount("B"), W: world.NewAccount("W"), F: world.NewAccount("F"), Did: de.DIDs[0], DidKey: de}
}

// product walks all combinations with at most maxOdd non-default classes (maxOdd < 0: the full Cartesian
// product); f receives the message, the labels of the non-default classes and their number.
func (d *msgDom) product(maxOdd int, f func(m sdk.Msg, oddLabels []string, odd int)) int {
	idx := make([]int, len(d.Fields))
	n := 0
	var rec func(i, odd int)
	rec = func(i, odd int) {
		if i == len(d.Fields) {
			m := d.New()
			var labels []string
			for j, fd := range d.Fields {
				c := fd.Classes[idx[j]]
				c.Set(m)
				if c.Odd {
					labels = append(labels, fd.Name+"="+c.Label)
				}
			}
			f(m, labels, odd)
			n++
			return
		}
		for ci, c := range d.Fields[i].Classes {
			o := odd
			if c.Odd {
				o++
			}
			if maxOdd >= 0 && o > maxOdd {
				continue
			}
			idx[i] = ci
			rec(i+1, o)
		}
	}
	rec(0, 0)
	return n
}

func (d *msgDom) size() int {
	n := 1
	for _, f := range d.Fields {
		n *= len(f.Classes)
	}
	return n
}

// ---- reference predicates (independent of the repository's validators) ---------------------------

const aolCharset = "ABCDEFGHIJKLMNOPQRSTUVWXYZabcdefghijklmnopqrstuvwxyz0123456789._-"

func refCharset(s string) bool {
	for i := 0; i < len(s); i++ {
		if strings.IndexByte(aolCharset, s[i]) < 0 {
			return false
		}
	}
	return true
}

func refTopic(s string) bool   { return len(s) >= 1 && len(s) <= 70 && refCharset(s) }
func refMoniker(s string) bool { return len(s) <= 70 && refCharset(s) }
func refDesc(s string) bool    { return len(s) <= 5000 && utf8.ValidString(s) } // text = UTF-8 (proto3 string)

// refAddr: bech32 with human-readable part "panacea" and 1..255 payload bytes.
func refAddr(s string) bool {
	hrp, bz, err := bech32.DecodeAndConvert(s)
	return err == nil && hrp == "panacea" && len(bz) >= 1 && len(bz) <= 255
}

const b58 = "123456789ABCDEFGHJKLMNPQRSTUVWXYZabcdefghijkmnopqrstuvwxyz"

func refBase58(s string) bool {
	if s == "" {
		return false
	}
	for i := 0; i < len(s); i++ {
		if strings.IndexByte(b58, s[i]) < 0 {
			return false
		}
	}
	return true
}

func refDID(s string) bool {
	const p = "did:panacea:"
	if !strings.HasPrefix(s, p) {
		return false
	}
	id := s[len(p):]
	return len(id) >= 32 && len(id) <= 44 && refBase58(id)
}

var asciiSpace = regexp.MustCompile(`[\t\n\f\r ]`)

func refMethodID(id, did string) bool {
	p := did + "#"
	if !strings.HasPrefix(id, p) {
		return false
	}
	suf := id[len(p):]
	return len(suf) >= 1 && len(suf) <= 128 && !asciiSpace.MatchString(suf)
}

func refVM(vm *didtypes.VerificationMethod, did string) bool {
	return vm != nil && refMethodID(vm.Id, did) && vm.Type != "" && refBase58(vm.PublicKeyBase58)
}

func refDoc(doc *didtypes.DIDDocument, did string) bool {
	if doc == nil || doc.Id != did || !refDID(doc.Id) {
		return false
	}
	if len(doc.VerificationMethods) == 0 || len(doc.Authentications) == 0 {
		return false
	}
	if doc.Contexts != nil {
		cs := []string(*doc.Contexts)
		if len(cs) == 0 || cs[0] != "https://www.w3.org/ns/did/v1" {
			return false
		}
		seen := map[string]bool{}
		for _, c := range cs {
			if c == "" || seen[c] {
				return false
			}
			seen[c] = true
		}
	}
	ids := map[string]bool{}
	for _, vm := range doc.VerificationMethods {
		if !refVM(vm, did) {
			return false
		}
		ids[vm.Id] = true
	}
	for _, rels := range [][]didtypes.VerificationRelationship{doc.Authentications, doc.AssertionMethods, doc.KeyAgreements, doc.CapabilityInvocations, doc.CapabilityDelegations} {
		for _, r := range rels {
			if vm := r.GetVerificationMethod(); vm != nil {
				if !refVM(vm, did) {
					return false
				}
			} else {
				id := r.GetVerificationMethodId()
				if !refMethodID(id, did) || !ids[id] {
					return false
				}
			}
		}
	}
	for _, s := range doc.Services {
		if s == nil || s.Id == "" || s.Type == "" || s.ServiceEndpoint == "" {
			return false
		}
	}
	return true
}

func refID(s string) bool { return s != "" && !strings.Contains(s, "\x00") }

// ---- class menus ------------------------------------------------------------------------------------

type strSetter func(m sdk.Msg, v string)
type bytesSetter func(m sdk.Msg, v []byte)

func strField(name string, set strSetter, vals ...[2]string) fdom {
	fd := fdom{Name: name}
	for i, v := range vals {
		v := v
		fd.Classes = append(fd.Classes, fclass{Label: v[0], Odd: i > 0, Set: func(m sdk.Msg) { set(m, v[1]) }})
	}
	return fd
}

func rep(s string, n int) string { return strings.Repeat(s, n) }

func topicClasses(thorough bool) [][2]string {
	c := [][2]string{
		{"valid", "a"}, {"empty", ""}, {"len69", rep("x", 69)}, {"len70", rep("Z", 70)}, {"len71", rep("x", 71)},
		{"space", "a b"}, {"multibyte", "té"}, {"newline-end", "abc\n"}, {"allchars", "Az09._-"},
		// far beyond the limit, at lengths whose low 8 bits look legal (truncating conversions)
		{"len256", rep("q", 256)}, {"len300", rep("q", 300)}, {"len326", rep("q", 326)}, {"len65537", rep("q", 65537)},
	}
	if thorough {
		c = append(c, [2]string{"len255", rep("q", 255)}, [2]string{"nul", "a\x00b"}, [2]string{"slash", "a/b"},
			[2]string{"multibyte70bytes", rep("é", 35)}, [2]string{"multibyte36runes", rep("é", 36)}, [2]string{"tab", "a\tb"}, [2]string{"badutf8", "a\xffb"},
			[2]string{"multibyte254bytes", rep("é", 127)}, [2]string{"multibyte256bytes", rep("é", 128)}, [2]string{"255runes-3bytes-each", rep("가", 255)})
	}
	return c
}

func monikerClasses(thorough bool) [][2]string {
	c := [][2]string{{"empty", ""}, {"valid", "mon.1"}, {"len70", rep("m", 70)}, {"len71", rep("m", 71)}, {"space", "a b"}, {"multibyte", "ü"},
		{"len256", rep("m", 256)}, {"len300", rep("m", 300)}, {"len65600", rep("m", 65600)}}
	if thorough {
		c = append(c, [2]string{"newline-end", "m\n"}, [2]string{"nul", "\x00"})
	}
	return c
}

func descClasses(thorough bool) [][2]string {
	c := [][2]string{{"empty", ""}, {"len4999", rep("d", 4999)}, {"len5000", rep("d", 5000)}, {"len5001", rep("d", 5001)}, {"multibyte5000bytes", rep("é", 2500)}, {"multibyte2501runes", rep("é", 2501)},
		{"len65536", rep("d", 65536)}, {"len70536", rep("d", 65536+5000)}, {"not-utf8", "a\xffb"},
		// short multi-byte text: more than 64 bytes in fewer than 64 characters, and just around 64 bytes
		{"hangul30chars90bytes", rep("가", 30)}, {"cjk22chars66bytes", rep("日", 22)}, {"cjk21chars63bytes", rep("日", 21)}}
	if thorough {
		c = append(c, [2]string{"control", "a\x00\x01\n"})
	}
	return c
}

func addrClasses(e *domEnv, who *world.Account, thorough bool) [][2]string {
	mk := func(n int) string {
		s, err := bech32.ConvertAndEncode("panacea", bytes.Repeat([]byte{0x5a}, n))
		if err != nil {
			panic(err)
		}
		return s
	}
	wrongPrefix, _ := bech32.ConvertAndEncode("cosmos", who.Addr)
	bad := []byte(who.Bech)
	if bad[len(bad)-1] == 'q' {
		bad[len(bad)-1] = 'p'
	} else {
		bad[len(bad)-1] = 'q'
	}
	c := [][2]string{
		{"valid", who.Bech}, {"upper", strings.ToUpper(who.Bech)}, {"wrongprefix", wrongPrefix}, {"badchecksum", string(bad)},
		{"empty", ""}, {"len255", mk(255)}, {"len256", mk(256)},
	}
	if thorough {
		zero, _ := bech32.ConvertAndEncode("panacea", []byte{})
		c = append(c, [2]string{"garbage", "abc"}, [2]string{"zero-bytes", zero}, [2]string{"leading-space", " " + who.Bech},
			[2]string{"trailing-space", who.Bech + " "}, [2]string{"only-space", " "}, [2]string{"tab-newline", "\t\n"}, [2]string{"trailing-newline", who.Bech + "\n"}, [2]string{"mixedcase", strings.ToUpper(who.Bech[:10]) + who.Bech[10:]},
			[2]string{"len1", mk(1)}, [2]string{"valoper", sdk.ValAddress(who.Addr).String()})
	}
	return c
}

func bytesField(name string, set bytesSetter, lens ...int) fdom {
	fd := fdom{Name: name}
	for i, l := range lens {
		l := l
		var v []byte
		if l >= 0 {
			v = bytes.Repeat([]byte{0xe9}, l)
		}
		lbl := fmt.Sprintf("len%d", l)
		if l < 0 {
			lbl = "nil"
		}
		fd.Classes = append(fd.Classes, fclass{Label: lbl, Odd: i > 0, Set: func(m sdk.Msg) { set(m, v) }})
	}
	return fd
}

// ---- the 14 domains -------------------------------------------------------------------------------

func allDomains(e *domEnv, thorough bool) []*msgDom {
	var ds []*msgDom
	sA := func(e *domEnv) []*world.Account { return []*world.Account{e.A} }

	// AOL
	ds = append(ds, &msgDom{Name: "aol.MsgCreateTopicRequest", New: func() sdk.Msg { return &aoltypes.MsgCreateTopicRequest{} }, Signers: sA,
		Fields: []fdom{
			strField("topic", func(m sdk.Msg, v string) { m.(*aoltypes.MsgCreateTopicRequest).TopicName = v }, topicClasses(thorough)...),
			strField("description", func(m sdk.Msg, v string) { m.(*aoltypes.MsgCreateTopicRequest).Description = v }, descClasses(thorough)...),
			strField("owner", func(m sdk.Msg, v string) { m.(*aoltypes.MsgCreateTopicRequest).OwnerAddress = v }, addrClasses(e, e.A, thorough)...),
		},
		Ref: func(m sdk.Msg) bool {
			x := m.(*aoltypes.MsgCreateTopicRequest)
			return refTopic(x.TopicName) && refDesc(x.Description) && refAddr(x.OwnerAddress)
		}})
	ds = append(ds, &msgDom{Name: "aol.MsgAddWriterRequest", New: func() sdk.Msg { return &aoltypes.MsgAddWriterRequest{} }, Signers: sA,
		Fields: []fdom{
			strField("topic", func(m sdk.Msg, v string) { m.(*aoltypes.MsgAddWriterRequest).TopicName = v }, topicClasses(thorough)...),
			strField("moniker", func(m sdk.Msg, v string) { m.(*aoltypes.MsgAddWriterRequest).Moniker = v }, monikerClasses(thorough)...),
			strField("description", func(m sdk.Msg, v string) { m.(*aoltypes.MsgAddWriterRequest).Description = v }, descClasses(false)...),
			strField("writer", func(m sdk.Msg, v string) { m.(*aoltypes.MsgAddWriterRequest).WriterAddress = v }, addrClasses(e, e.W, thorough)...),
			strField("owner", func(m sdk.Msg, v string) { m.(*aoltypes.MsgAddWriterRequest).OwnerAddress = v }, addrClasses(e, e.A, false)...),
		},
		Ref: func(m sdk.Msg) bool {
			x := m.(*aoltypes.MsgAddWriterRequest)
			return refTopic(x.TopicName) && refMoniker(x.Moniker) && refDesc(x.Description) && refAddr(x.WriterAddress) && refAddr(x.OwnerAddress)
		}})
	ds = append(ds, &msgDom{Name: "aol.MsgDeleteWriterRequest", New: func() sdk.Msg { return &aoltypes.MsgDeleteWriterRequest{} }, Signers: sA,
		Fields: []fdom{
			strField("topic", func(m sdk.Msg, v string) { m.(*aoltypes.MsgDeleteWriterRequest).TopicName = v }, topicClasses(thorough)...),
			strField("writer", func(m sdk.Msg, v string) { m.(*aoltypes.MsgDeleteWriterRequest).WriterAddress = v }, addrClasses(e, e.W, thorough)...),
			strField("owner", func(m sdk.Msg, v string) { m.(*aoltypes.MsgDeleteWriterRequest).OwnerAddress = v }, addrClasses(e, e.A, thorough)...),
		},
		Ref: func(m sdk.Msg) bool {
			x := m.(*aoltypes.MsgDeleteWriterRequest)
			return refTopic(x.TopicName) && refAddr(x.WriterAddress) && refAddr(x.OwnerAddress)
		}})
	fpClasses := append([][2]string{{"absent", ""}}, addrClasses(e, e.F, thorough)...)
	// drop the duplicate "empty" class of addrClasses (same value as absent)
	var fp [][2]string
	for _, c := range fpClasses {
		if c[0] != "empty" {
			fp = append(fp, c)
		}
	}
	ds = append(ds, &msgDom{Name: "aol.MsgAddRecordRequest", New: func() sdk.Msg { return &aoltypes.MsgAddRecordRequest{} },
		Signers: func(e *domEnv) []*world.Account { return []*world.Account{e.W} },
		Fields: []fdom{
			strField("topic", func(m sdk.Msg, v string) { m.(*aoltypes.MsgAddRecordRequest).TopicName = v }, topicClasses(false)...),
			bytesField("key", func(m sdk.Msg, v []byte) { m.(*aoltypes.MsgAddRecordRequest).Key = v }, 1, -1, 0, 69, 70, 71, 5000),
			bytesField("value", func(m sdk.Msg, v []byte) { m.(*aoltypes.MsgAddRecordRequest).Value = v }, 1, -1, 0, 71, 4999, 5000, 5001),
			strField("writer", func(m sdk.Msg, v string) { m.(*aoltypes.MsgAddRecordRequest).WriterAddress = v }, addrClasses(e, e.W, false)...),
			strField("owner", func(m sdk.Msg, v string) { m.(*aoltypes.MsgAddRecordRequest).OwnerAddress = v }, addrClasses(e, e.A, false)...),
			strField("feepayer", func(m sdk.Msg, v string) { m.(*aoltypes.MsgAddRecordRequest).FeePayerAddress = v }, fp...),
		},
		Ref: func(m sdk.Msg) bool {
			x := m.(*aoltypes.MsgAddRecordRequest)
			return refTopic(x.TopicName) && len(x.Key) <= 70 && len(x.Value) <= 5000 && refAddr(x.WriterAddress) && refAddr(x.OwnerAddress) &&
				(x.FeePayerAddress == "" || refAddr(x.FeePayerAddress))
		}})

	// DID
	ds = append(ds, didDomains(e, thorough)...)

	// PNFT
	idC := [][2]string{{"valid", "d"}, {"empty", ""}, {"nul", "d\x00x"}, {"len300", rep("i", 300)}, {"nul-first", "\x00d"}, {"nul-last", "d\x00"}, {"only-nul", "\x00"}}
	nameC := [][2]string{{"valid", "n"}, {"empty", ""}}
	optC := [][2]string{{"empty", ""}, {"set", "v"}, {"len5001", rep("v", 5001)}}
	ds = append(ds, &msgDom{Name: "pnft.MsgCreateDenomRequest", New: func() sdk.Msg { return &pnfttypes.MsgCreateDenomRequest{} }, Signers: sA,
		Fields: []fdom{
			strField("id", func(m sdk.Msg, v string) { m.(*pnfttypes.MsgCreateDenomRequest).Id = v }, idC...),
			strField("name", func(m sdk.Msg, v string) { m.(*pnfttypes.MsgCreateDenomRequest).Name = v }, nameC...),
			strField("symbol", func(m sdk.Msg, v string) { m.(*pnfttypes.MsgCreateDenomRequest).Symbol = v }, nameC...),
			strField("description", func(m sdk.Msg, v string) { m.(*pnfttypes.MsgCreateDenomRequest).Description = v }, optC...),
			strField("uri", func(m sdk.Msg, v string) { m.(*pnfttypes.MsgCreateDenomRequest).Uri = v }, optC[:2]...),
			strField("data", func(m sdk.Msg, v string) { m.(*pnfttypes.MsgCreateDenomRequest).Data = v }, optC[:2]...),
			strField("creator", func(m sdk.Msg, v string) { m.(*pnfttypes.MsgCreateDenomRequest).Creator = v }, addrClasses(e, e.A, thorough)...),
		},
		Ref: func(m sdk.Msg) bool {
			x := m.(*pnfttypes.MsgCreateDenomRequest)
			return refID(x.Id) && x.Name != "" && x.Symbol != "" && refAddr(x.Creator)
		}})
	ds = append(ds, &msgDom{Name: "pnft.MsgUpdateDenomRequest", New: func() sdk.Msg { return &pnfttypes.MsgUpdateDenomRequest{} }, Signers: sA,
		Fields: []fdom{
			strField("id", func(m sdk.Msg, v string) { m.(*pnfttypes.MsgUpdateDenomRequest).Id = v }, idC[:2]...),
			strField("name", func(m sdk.Msg, v string) { m.(*pnfttypes.MsgUpdateDenomRequest).Name = v }, nameC...),
			strField("symbol", func(m sdk.Msg, v string) { m.(*pnfttypes.MsgUpdateDenomRequest).Symbol = v }, nameC...),
			strField("description", func(m sdk.Msg, v string) { m.(*pnfttypes.MsgUpdateDenomRequest).Description = v }, optC...),
			strField("updater", func(m sdk.Msg, v string) { m.(*pnfttypes.MsgUpdateDenomRequest).Updater = v }, addrClasses(e, e.A, thorough)...),
		},
		Ref: func(m sdk.Msg) bool {
			x := m.(*pnfttypes.MsgUpdateDenomRequest)
			return x.Id != "" && refAddr(x.Updater)
		}})
	ds = append(ds, &msgDom{Name: "pnft.MsgDeleteDenomRequest", New: func() sdk.Msg { return &pnfttypes.MsgDeleteDenomRequest{} }, Signers: sA,
		Fields: []fdom{
			strField("id", func(m sdk.Msg, v string) { m.(*pnfttypes.MsgDeleteDenomRequest).Id = v }, idC[:2]...),
			strField("remover", func(m sdk.Msg, v string) { m.(*pnfttypes.MsgDeleteDenomRequest).Remover = v }, addrClasses(e, e.A, true)...),
		},
		Ref: func(m sdk.Msg) bool {
			x := m.(*pnfttypes.MsgDeleteDenomRequest)
			return x.Id != "" && refAddr(x.Remover)
		}})
	ds = append(ds, &msgDom{Name: "pnft.MsgTransferDenomRequest", New: func() sdk.Msg { return &pnfttypes.MsgTransferDenomRequest{} }, Signers: sA,
		Fields: []fdom{
			strField("id", func(m sdk.Msg, v string) { m.(*pnfttypes.MsgTransferDenomRequest).Id = v }, idC[:2]...),
			strField("sender", func(m sdk.Msg, v string) { m.(*pnfttypes.MsgTransferDenomRequest).Sender = v }, addrClasses(e, e.A, thorough)...),
			strField("receiver", func(m sdk.Msg, v string) { m.(*pnfttypes.MsgTransferDenomRequest).Receiver = v }, addrClasses(e, e.B, thorough)...),
		},
		Ref: func(m sdk.Msg) bool {
			x := m.(*pnfttypes.MsgTransferDenomRequest)
			return x.Id != "" && refAddr(x.Sender) && refAddr(x.Receiver)
		}})
	ds = append(ds, &msgDom{Name: "pnft.MsgMintPNFTRequest", New: func() sdk.Msg { return &pnfttypes.MsgMintPNFTRequest{} }, Signers: sA,
		Fields: []fdom{
			strField("denom", func(m sdk.Msg, v string) { m.(*pnfttypes.MsgMintPNFTRequest).DenomId = v }, idC...),
			strField("id", func(m sdk.Msg, v string) { m.(*pnfttypes.MsgMintPNFTRequest).Id = v }, [][2]string{{"valid", "t"}, {"empty", ""}, {"nul", "x\x00t"}, {"len300", rep("i", 300)}, {"nul-first", "\x00t"}, {"nul-last", "t\x00"}}...),
			strField("name", func(m sdk.Msg, v string) { m.(*pnfttypes.MsgMintPNFTRequest).Name = v }, nameC...),
			strField("description", func(m sdk.Msg, v string) { m.(*pnfttypes.MsgMintPNFTRequest).Description = v }, optC...),
			strField("data", func(m sdk.Msg, v string) { m.(*pnfttypes.MsgMintPNFTRequest).Data = v }, optC[:2]...),
			strField("creator", func(m sdk.Msg, v string) { m.(*pnfttypes.MsgMintPNFTRequest).Creator = v }, addrClasses(e, e.A, thorough)...),
		},
		Ref: func(m sdk.Msg) bool {
			x := m.(*pnfttypes.MsgMintPNFTRequest)
			return refID(x.DenomId) && refID(x.Id) && x.Name != "" && refAddr(x.Creator)
		}})
	ds = append(ds, &msgDom{Name: "pnft.MsgTransferPNFTRequest", New: func() sdk.Msg { return &pnfttypes.MsgTransferPNFTRequest{} }, Signers: sA,
		Fields: []fdom{
			strField("denom", func(m sdk.Msg, v string) { m.(*pnfttypes.MsgTransferPNFTRequest).DenomId = v }, idC[:2]...),
			strField("id", func(m sdk.Msg, v string) { m.(*pnfttypes.MsgTransferPNFTRequest).Id = v }, [][2]string{{"valid", "t"}, {"empty", ""}}...),
			strField("sender", func(m sdk.Msg, v string) { m.(*pnfttypes.MsgTransferPNFTRequest).Sender = v }, addrClasses(e, e.A, thorough)...),
			strField("receiver", func(m sdk.Msg, v string) { m.(*pnfttypes.MsgTransferPNFTRequest).Receiver = v }, addrClasses(e, e.B, thorough)...),
		},
		Ref: func(m sdk.Msg) bool {
			x := m.(*pnfttypes.MsgTransferPNFTRequest)
			return x.DenomId != "" && x.Id != "" && refAddr(x.Sender) && refAddr(x.Receiver)
		}})
	ds = append(ds, &msgDom{Name: "pnft.MsgBurnPNFTRequest", New: func() sdk.Msg { return &pnfttypes.MsgBurnPNFTRequest{} }, Signers: sA,
		Fields: []fdom{
			strField("denom", func(m sdk.Msg, v string) { m.(*pnfttypes.MsgBurnPNFTRequest).DenomId = v }, idC[:2]...),
			strField("id", func(m sdk.Msg, v string) { m.(*pnfttypes.MsgBurnPNFTRequest).Id = v }, [][2]string{{"valid", "t"}, {"empty", ""}}...),
			strField("burner", func(m sdk.Msg, v string) { m.(*pnfttypes.MsgBurnPNFTRequest).Burner = v }, addrClasses(e, e.A, true)...),
		},
		Ref: func(m sdk.Msg) bool {
			x := m.(*pnfttypes.MsgBurnPNFTRequest)
			return x.DenomId != "" && x.Id != "" && refAddr(x.Burner)
		}})
	return ds
}

// ---- DID domains ------------------------------------------------------------------------------------

func didStrClasses(e *domEnv, thorough bool) [][2]string {
	id32 := rep("2", 32)
	c := [][2]string{
		{"valid", e.Did}, {"len31", "did:panacea:" + rep("2", 31)}, {"len32", "did:panacea:" + id32}, {"len44", "did:panacea:" + rep("z", 44)}, {"len45", "did:panacea:" + rep("z", 45)},
		{"zero", "did:panacea:" + rep("2", 31) + "0"}, {"empty", ""},
	}
	if thorough {
		c = append(c, [2]string{"capO", "did:panacea:" + rep("2", 31) + "O"}, [2]string{"capI", "did:panacea:" + rep("2", 31) + "I"}, [2]string{"lowl", "did:panacea:" + rep("2", 31) + "l"},
			[2]string{"othermethod", "did:other:" + id32}, [2]string{"upperprefix", "DID:panacea:" + id32}, [2]string{"trailing-newline", e.Did + "\n"}, [2]string{"fragment", e.Did + "#key1"})
	}
	return c
}

// docParts describes one generated document; the did field of the message is chosen separately.
func didDomains(e *domEnv, thorough bool) []*msgDom {
	k := e.DidKey
	pub := func() string { return didtypes.NewVerificationMethod("x", es256k, "x", k.pub(1)).PublicKeyBase58 }()
	type docMsg interface {
		sdk.Msg
		GetDocument() *didtypes.DIDDocument
	}
	doc := func(m sdk.Msg) *didtypes.DIDDocument { return m.(docMsg).GetDocument() }
	setDoc := func(m sdk.Msg, d *didtypes.DIDDocument) {
		switch x := m.(type) {
		case *didtypes.MsgCreateDIDRequest:
			x.Document = d
		case *didtypes.MsgUpdateDIDRequest:
			x.Document = d
		}
	}
	setDid := func(m sdk.Msg, v string) {
		switch x := m.(type) {
		case *didtypes.MsgCreateDIDRequest:
			x.Did = v
		case *didtypes.MsgUpdateDIDRequest:
			x.Did = v
		case *didtypes.MsgDeactivateDIDRequest:
			x.Did = v
		}
	}
	setSig := func(m sdk.Msg, v []byte) {
		switch x := m.(type) {
		case *didtypes.MsgCreateDIDRequest:
			x.Signature = v
		case *didtypes.MsgUpdateDIDRequest:
			x.Signature = v
		case *didtypes.MsgDeactivateDIDRequest:
			x.Signature = v
		}
	}
	setFrom := func(m sdk.Msg, v string) {
		switch x := m.(type) {
		case *didtypes.MsgCreateDIDRequest:
			x.FromAddress = v
		case *didtypes.MsgUpdateDIDRequest:
			x.FromAddress = v
		case *didtypes.MsgDeactivateDIDRequest:
			x.FromAddress = v
		}
	}
	setVMID := func(m sdk.Msg, v string) {
		switch x := m.(type) {
		case *didtypes.MsgCreateDIDRequest:
			x.VerificationMethodId = v
		case *didtypes.MsgUpdateDIDRequest:
			x.VerificationMethodId = v
		case *didtypes.MsgDeactivateDIDRequest:
			x.VerificationMethodId = v
		}
	}
	// Field order matters: "document" first creates the document, later fields modify it (no-ops when absent).
	docField := fdom{Name: "document", Classes: []fclass{
		{Label: "about-did", Set: func(m sdk.Msg) { setDoc(m, &didtypes.DIDDocument{Id: e.Did}) }},
		{Label: "absent", Odd: true, Set: func(m sdk.Msg) { setDoc(m, nil) }},
		{Label: "empty-id", Odd: true, Set: func(m sdk.Msg) { setDoc(m, &didtypes.DIDDocument{Id: ""}) }},
		{Label: "about-other-did", Odd: true, Set: func(m sdk.Msg) { setDoc(m, &didtypes.DIDDocument{Id: k.DIDs[1]}) }},
	}}
	withDoc := func(f func(d *didtypes.DIDDocument)) func(sdk.Msg) {
		return func(m sdk.Msg) {
			if d := doc(m); d != nil {
				f(d)
			}
		}
	}
	vmOf := func(d *didtypes.DIDDocument, suffix, typ, key string) *didtypes.VerificationMethod {
		return &didtypes.VerificationMethod{Id: d.Id + "#" + suffix, Type: typ, Controller: d.Id, PublicKeyBase58: key}
	}
	sufC := [][2]string{{"key1", "key1"}, {"empty", ""}, {"len128", rep("k", 128)}, {"len129", rep("k", 129)}, {"space", "a b"}, {"newline", "a\nb"},
		{"second-hash-total129", rep("k", 127) + "#k"}, {"second-hash-space-before", "my key#1"}, {"second-hash-total128", rep("k", 126) + "#k"},
		// letters whose UTF-8 encoding contains the bytes 0x85 / 0xA0 (as code points these would be NEL / NBSP): ordinary non-space text
		{"letters-with-bytes-85-a0", "clé-à-Å-Рх"}}
	if thorough {
		sufC = append(sufC, [2]string{"tab", "a\tb"}, [2]string{"len1", "k"}, [2]string{"multibyte128bytes", rep("é", 64)}, [2]string{"multibyte65runes", rep("é", 65)}, [2]string{"hash", "a#b"})
	}
	vmField := fdom{Name: "vm"}
	for i, sc := range sufC {
		sc := sc
		vmField.Classes = append(vmField.Classes, fclass{Label: "suffix-" + sc[0], Odd: i > 0, Set: withDoc(func(d *didtypes.DIDDocument) {
			d.VerificationMethods = []*didtypes.VerificationMethod{vmOf(d, sc[1], es256k, pub)}
		})})
	}
	vmField.Classes = append(vmField.Classes,
		fclass{Label: "none", Odd: true, Set: withDoc(func(d *didtypes.DIDDocument) { d.VerificationMethods = nil })},
		fclass{Label: "type-empty", Odd: true, Set: withDoc(func(d *didtypes.DIDDocument) {
			d.VerificationMethods = []*didtypes.VerificationMethod{vmOf(d, "key1", "", pub)}
		})},
		fclass{Label: "type-unknown", Odd: true, Set: withDoc(func(d *didtypes.DIDDocument) {
			d.VerificationMethods = []*didtypes.VerificationMethod{vmOf(d, "key1", "MyOwnKey2031", pub)}
		})},
		fclass{Label: "type-ed25519-33byte-key", Odd: true, Set: withDoc(func(d *didtypes.DIDDocument) {
			d.VerificationMethods = []*didtypes.VerificationMethod{vmOf(d, "key1", "Ed25519VerificationKey2018", pub)}
		})},
		fclass{Label: "type-ed25519-1byte-key", Odd: true, Set: withDoc(func(d *didtypes.DIDDocument) {
			d.VerificationMethods = []*didtypes.VerificationMethod{vmOf(d, "key1", "Ed25519VerificationKey2018", "2")}
		})},
		fclass{Label: "type-jwk-33byte-key", Odd: true, Set: withDoc(func(d *didtypes.DIDDocument) {
			d.VerificationMethods = []*didtypes.VerificationMethod{vmOf(d, "key1", "JsonWebKey2020", pub)}
		})},
		fclass{Label: "key-empty", Odd: true, Set: withDoc(func(d *didtypes.DIDDocument) {
			d.VerificationMethods = []*didtypes.VerificationMethod{vmOf(d, "key1", es256k, "")}
		})},
		fclass{Label: "key-nonbase58", Odd: true, Set: withDoc(func(d *didtypes.DIDDocument) {
			d.VerificationMethods = []*didtypes.VerificationMethod{vmOf(d, "key1", es256k, "0OIl")}
		})},
		fclass{Label: "id-of-other-did", Odd: true, Set: withDoc(func(d *didtypes.DIDDocument) {
			d.VerificationMethods = []*didtypes.VerificationMethod{{Id: k.DIDs[1] + "#key1", Type: es256k, Controller: d.Id, PublicKeyBase58: pub}}
		})},
		fclass{Label: "two", Odd: true, Set: withDoc(func(d *didtypes.DIDDocument) {
			d.VerificationMethods = []*didtypes.VerificationMethod{vmOf(d, "key1", es256k, pub), vmOf(d, "key2", "Ed25519VerificationKey2018", pub)}
		})},
	)
	ref := func(d *didtypes.DIDDocument, suffix string) didtypes.VerificationRelationship {
		return didtypes.NewVerificationRelationship(d.Id + "#" + suffix)
	}
	authField := fdom{Name: "authentication", Classes: []fclass{
		{Label: "ref-first-vm", Set: withDoc(func(d *didtypes.DIDDocument) {
			if len(d.VerificationMethods) > 0 {
				d.Authentications = []didtypes.VerificationRelationship{didtypes.NewVerificationRelationship(d.VerificationMethods[0].Id)}
			} else {
				d.Authentications = []didtypes.VerificationRelationship{ref(d, "key1")}
			}
		})},
		{Label: "none", Odd: true, Set: withDoc(func(d *didtypes.DIDDocument) { d.Authentications = nil })},
		{Label: "dangling-ref", Odd: true, Set: withDoc(func(d *didtypes.DIDDocument) {
			d.Authentications = []didtypes.VerificationRelationship{ref(d, "nokey")}
		})},
		{Label: "dedicated-valid", Odd: true, Set: withDoc(func(d *didtypes.DIDDocument) {
			d.Authentications = []didtypes.VerificationRelationship{didtypes.NewVerificationRelationshipDedicated(*vmOf(d, "ded", es256k, pub))}
		})},
		{Label: "dedicated-invalid-key", Odd: true, Set: withDoc(func(d *didtypes.DIDDocument) {
			d.Authentications = []didtypes.VerificationRelationship{didtypes.NewVerificationRelationshipDedicated(*vmOf(d, "ded", es256k, "0"))}
		})},
		{Label: "empty-relationship", Odd: true, Set: withDoc(func(d *didtypes.DIDDocument) { d.Authentications = []didtypes.VerificationRelationship{{}} })},
		// lists of several entries: every entry is checked, wherever it stands
		{Label: "dedicated-then-dangling-ref", Odd: true, Set: withDoc(func(d *didtypes.DIDDocument) {
			d.Authentications = []didtypes.VerificationRelationship{didtypes.NewVerificationRelationshipDedicated(*vmOf(d, "ded", es256k, pub)), ref(d, "ghost")}
		})},
		{Label: "dedicated-then-malformed-ref", Odd: true, Set: withDoc(func(d *didtypes.DIDDocument) {
			d.Authentications = []didtypes.VerificationRelationship{didtypes.NewVerificationRelationshipDedicated(*vmOf(d, "ded", es256k, pub)), didtypes.NewVerificationRelationship(k.DIDs[1] + "#key 1")}
		})},
		{Label: "ref-then-dedicated-then-invalid-dedicated", Odd: true, Set: withDoc(func(d *didtypes.DIDDocument) {
			first := ref(d, "key1")
			if len(d.VerificationMethods) > 0 {
				first = didtypes.NewVerificationRelationship(d.VerificationMethods[0].Id)
			}
			d.Authentications = []didtypes.VerificationRelationship{first, didtypes.NewVerificationRelationshipDedicated(*vmOf(d, "ded", es256k, pub)),
				didtypes.NewVerificationRelationshipDedicated(*vmOf(d, "ded9", "", pub))}
		})},
		{Label: "dedicated-then-valid-ref", Odd: true, Set: withDoc(func(d *didtypes.DIDDocument) {
			second := ref(d, "key1")
			if len(d.VerificationMethods) > 0 {
				second = didtypes.NewVerificationRelationship(d.VerificationMethods[0].Id)
			}
			d.Authentications = []didtypes.VerificationRelationship{didtypes.NewVerificationRelationshipDedicated(*vmOf(d, "ded", es256k, pub)), second}
		})},
	}}
	otherRel := fdom{Name: "other-relationships", Classes: []fclass{
		{Label: "none", Set: func(sdk.Msg) {}},
		{Label: "assertion-ref-first-vm", Odd: true, Set: withDoc(func(d *didtypes.DIDDocument) {
			if len(d.VerificationMethods) > 0 {
				d.AssertionMethods = []didtypes.VerificationRelationship{didtypes.NewVerificationRelationship(d.VerificationMethods[0].Id)}
			}
		})},
		{Label: "assertion-ref-last-vm", Odd: true, Set: withDoc(func(d *didtypes.DIDDocument) {
			if n := len(d.VerificationMethods); n > 0 {
				d.AssertionMethods = []didtypes.VerificationRelationship{didtypes.NewVerificationRelationship(d.VerificationMethods[n-1].Id)}
			}
		})},
		{Label: "assertion-ref-to-embedded-auth-method", Odd: true, Set: withDoc(func(d *didtypes.DIDDocument) {
			// resolves only if the authentication list embeds a method "ded" - which is NOT in verificationMethod
			d.AssertionMethods = []didtypes.VerificationRelationship{ref(d, "ded")}
		})},
		{Label: "keyagreement-dangling", Odd: true, Set: withDoc(func(d *didtypes.DIDDocument) { d.KeyAgreements = []didtypes.VerificationRelationship{ref(d, "nokey")} })},
		{Label: "capinvocation-dedicated-badtype", Odd: true, Set: withDoc(func(d *didtypes.DIDDocument) {
			d.CapabilityInvocations = []didtypes.VerificationRelationship{didtypes.NewVerificationRelationshipDedicated(*vmOf(d, "ded2", "", pub))}
		})},
		{Label: "capdelegation-dedicated-valid", Odd: true, Set: withDoc(func(d *didtypes.DIDDocument) {
			d.CapabilityDelegations = []didtypes.VerificationRelationship{didtypes.NewVerificationRelationshipDedicated(*vmOf(d, "ded3", "JsonWebKey2020", pub))}
		})},
	}}
	w3c := "https://www.w3.org/ns/did/v1"
	ctxField := fdom{Name: "contexts", Classes: []fclass{
		{Label: "w3c", Set: withDoc(func(d *didtypes.DIDDocument) { d.Contexts = &didtypes.JSONStringOrStrings{w3c} })},
		{Label: "w3c-first-of-two", Odd: true, Set: withDoc(func(d *didtypes.DIDDocument) { d.Contexts = &didtypes.JSONStringOrStrings{w3c, "https://x"} })},
		{Label: "w3c-second", Odd: true, Set: withDoc(func(d *didtypes.DIDDocument) { d.Contexts = &didtypes.JSONStringOrStrings{"https://x", w3c} })},
		{Label: "duplicate", Odd: true, Set: withDoc(func(d *didtypes.DIDDocument) {
			d.Contexts = &didtypes.JSONStringOrStrings{w3c, "https://x", "https://x"}
		})},
		{Label: "empty-string", Odd: true, Set: withDoc(func(d *didtypes.DIDDocument) { d.Contexts = &didtypes.JSONStringOrStrings{w3c, ""} })},
		{Label: "empty-list", Odd: true, Set: withDoc(func(d *didtypes.DIDDocument) { d.Contexts = &didtypes.JSONStringOrStrings{} })},
	}}
	svcField := fdom{Name: "services", Classes: []fclass{
		{Label: "none", Set: func(sdk.Msg) {}},
		{Label: "complete", Odd: true, Set: withDoc(func(d *didtypes.DIDDocument) {
			d.Services = []*didtypes.Service{{Id: "s", Type: "t", ServiceEndpoint: "e"}}
		})},
		{Label: "id-empty", Odd: true, Set: withDoc(func(d *didtypes.DIDDocument) {
			d.Services = []*didtypes.Service{{Id: "", Type: "t", ServiceEndpoint: "e"}}
		})},
		{Label: "type-empty", Odd: true, Set: withDoc(func(d *didtypes.DIDDocument) {
			d.Services = []*didtypes.Service{{Id: "s", Type: "", ServiceEndpoint: "e"}}
		})},
		{Label: "endpoint-empty", Odd: true, Set: withDoc(func(d *didtypes.DIDDocument) {
			d.Services = []*didtypes.Service{{Id: "s", Type: "t", ServiceEndpoint: "e"}, {Id: "s2", Type: "t", ServiceEndpoint: ""}}
		})},
	}}
	// well-known service types with endpoints that are text but not URLs (no rule restricts them: they are accepted as they are)
	for _, ty := range []string{"LinkedDomains", "DIDCommMessaging"} {
		for _, ep := range [][2]string{{"bad-port", "https://example.org:port"}, {"unclosed-bracket", "https://[::1"}, {"blank-in-host", "https://exa mple.org"}, {"colon", ":"}, {"control-char", "https://example.org/\x7f\x01"}, {"percent", "https://example.org/%zz"}} {
			ty, ep := ty, ep
			svcField.Classes = append(svcField.Classes, fclass{Label: ty + "+" + ep[0], Odd: true, Set: withDoc(func(d *didtypes.DIDDocument) {
				d.Services = []*didtypes.Service{{Id: "s", Type: ty, ServiceEndpoint: ep[1]}}
			})})
		}
	}
	sigField := fdom{Name: "signature", Classes: []fclass{
		{Label: "64bytes", Set: func(m sdk.Msg) { setSig(m, bytes.Repeat([]byte{1}, 64)) }},
		{Label: "nil", Odd: true, Set: func(m sdk.Msg) { setSig(m, nil) }},
		{Label: "empty", Odd: true, Set: func(m sdk.Msg) { setSig(m, []byte{}) }},
		{Label: "1byte", Odd: true, Set: func(m sdk.Msg) { setSig(m, []byte{7}) }},
		{Label: "65bytes", Odd: true, Set: func(m sdk.Msg) { setSig(m, bytes.Repeat([]byte{2}, 65)) }},
	}}
	didField := strField("did", setDid, didStrClasses(e, thorough)...)
	fromField := strField("from", setFrom, addrClasses(e, e.A, thorough)...)
	vmidField := strField("verification_method_id", setVMID, [][2]string{{"key1", e.Did + "#key1"}, {"empty", ""}}...)

	// the did field is set first so that "about-did" documents can follow it when the did class is a valid DID:
	// documents are built about e.Did; for other did classes the document id differs from the did field.
	followDid := fdom{Name: "document-follows-did", Classes: []fclass{
		{Label: "no", Set: func(sdk.Msg) {}},
		{Label: "yes", Odd: true, Set: func(m sdk.Msg) {
			// re-label document id and its method ids to the did field value
			d := doc(m)
			if d == nil || d.Id != e.Did {
				return
			}
			var did string
			switch x := m.(type) {
			case *didtypes.MsgCreateDIDRequest:
				did = x.Did
			case *didtypes.MsgUpdateDIDRequest:
				did = x.Did
			}
			old := d.Id
			d.Id = did
			fix := func(s string) string {
				if strings.HasPrefix(s, old+"#") {
					return did + s[len(old):]
				}
				return s
			}
			for _, vm := range d.VerificationMethods {
				vm.Id = fix(vm.Id)
			}
			for _, rels := range []*[]didtypes.VerificationRelationship{&d.Authentications, &d.AssertionMethods, &d.KeyAgreements, &d.CapabilityInvocations, &d.CapabilityDelegations} {
				for i, r := range *rels {
					if vm := r.GetVerificationMethod(); vm != nil {
						c := *vm
						c.Id = fix(c.Id)
						(*rels)[i] = didtypes.NewVerificationRelationshipDedicated(c)
					} else if r.Content != nil {
						(*rels)[i] = didtypes.NewVerificationRelationship(fix(r.GetVerificationMethodId()))
					}
				}
			}
		}},
	}}
	refDocMsg := func(did string, d *didtypes.DIDDocument, sig []byte, from string) bool {
		return refDID(did) && refDoc(d, did) && len(sig) > 0 && refAddr(from)
	}
	sA := func(e *domEnv) []*world.Account { return []*world.Account{e.A} }
	create := &msgDom{Name: "did.MsgCreateDIDRequest", New: func() sdk.Msg { return &didtypes.MsgCreateDIDRequest{} }, Signers: sA,
		Fields: []fdom{didField, docField, vmField, authField, otherRel, ctxField, svcField, followDid, sigField, vmidField, fromField},
		Ref: func(m sdk.Msg) bool {
			x := m.(*didtypes.MsgCreateDIDRequest)
			return refDocMsg(x.Did, x.Document, x.Signature, x.FromAddress)
		}}
	update := &msgDom{Name: "did.MsgUpdateDIDRequest", New: func() sdk.Msg { return &didtypes.MsgUpdateDIDRequest{} }, Signers: sA,
		Fields: []fdom{didField, docField, vmField, authField, otherRel, ctxField, svcField, followDid, sigField, vmidField, fromField},
		Ref: func(m sdk.Msg) bool {
			x := m.(*didtypes.MsgUpdateDIDRequest)
			return refDocMsg(x.Did, x.Document, x.Signature, x.FromAddress)
		}}
	deact := &msgDom{Name: "did.MsgDeactivateDIDRequest", New: func() sdk.Msg { return &didtypes.MsgDeactivateDIDRequest{} }, Signers: sA,
		Fields: []fdom{strField("did", setDid, didStrClasses(e, true)...), sigField, vmidField, strField("from", setFrom, addrClasses(e, e.A, true)...)},
		Ref: func(m sdk.Msg) bool {
			x := m.(*didtypes.MsgDeactivateDIDRequest)
			return refDID(x.Did) && len(x.Signature) > 0 && refAddr(x.FromAddress)
		}}
	return []*msgDom{create, update, deact}
}
