package checks

import (
	"fmt"
	"os"
	"runtime"
	"strings"
	"sync"
	"time"

	dbm "github.com/cometbft/cometbft-db"

	"verif/engine/report"
	"verif/engine/world"
)

type histCase struct {
	blocks [][]int
	name   string
	hist   History
	obsA   []BlockObs
	long   bool // long history: extra calls are placed one at a time only
}

// buildShard builds the histories i with i % n == shard on node A, serially.
func buildShard(e *twinEnv, maxLen, shard, n int) []*histCase {
	ops := e.mixedOps()
	hs := enumerateHistories(e.enumCount(), maxLen)
	var cases []*histCase
	for i, b := range hs {
		if i%n != shard {
			continue
		}
		h, obs := e.buildHistory(b)
		cases = append(cases, &histCase{blocks: b, name: histName(ops, b), hist: h, obsA: obs})
	}
	return cases
}

// buildAll builds every history on node A (in parallel) and returns them in enumeration order.
func buildAll(e *twinEnv, maxLen int, limit int) []*histCase {
	ops := e.mixedOps()
	hs := enumerateHistories(e.enumCount(), maxLen)
	if limit > 0 && len(hs) > limit {
		hs = hs[:limit]
	}
	cases := make([]*histCase, len(hs))
	var wg sync.WaitGroup
	sem := make(chan struct{}, runtime.NumCPU())
	for i, b := range hs {
		wg.Add(1)
		sem <- struct{}{}
		go func(i int, b [][]int) {
			defer wg.Done()
			defer func() { <-sem }()
			h, obs := e.buildHistory(b)
			cases[i] = &histCase{blocks: b, name: histName(ops, b), hist: h, obsA: obs}
		}(i, b)
	}
	wg.Wait()
	return cases
}

// C09 runs the histories in 16 single-threaded worker processes (package-level state of a changed tree must not be
// shared between instances of different histories, and must never be written concurrently).
func C09(t Tier) int {
	run := report.NewRun("C09", t.Name, "model_checking", "E1+E5")
	cov, ok := shardedRun(run, "C09", t)
	if !ok {
		return 2
	}
	states, execs, hist, cfgs, capHit := 0, 0, 0, 0, false
	outcomes := map[string]int{}
	var samples []any
	for _, c := range cov {
		states += int(c["states"].(float64))
		execs += int(c["transitions"].(float64))
		hist += int(c["histories"].(float64))
		cfgs += int(c["configs"].(float64))
		capHit = capHit || c["cap_hit"].(bool)
		for k, v := range c["tx_outcomes"].(map[string]any) {
			outcomes[k] += int(v.(float64))
		}
		if s, ok := c["samples"].([]any); ok && len(samples) < 4 {
			samples = append(samples, s...)
		}
	}
	run.Coverage["states"] = max(1, states)
	run.Coverage["transitions"] = max(1, execs)
	run.Coverage["traces_validated_against_impl"] = execs
	run.Coverage["histories"] = hist
	run.Coverage["twin_configurations_per_history_in_process"] = cfgs / max(1, hist)
	run.Coverage["child_process_configurations"] = 4
	run.Coverage["tx_outcomes"] = outcomes
	run.Coverage["exhaustive"] = !capHit
	run.Coverage["cap_hit"] = capHit
	run.Coverage["worker_processes"] = len(cov)
	run.Coverage["map_order"] = "sampled (every execution is an independent sample of Go's map iteration randomisation; it cannot be enumerated)"
	run.Coverage["samples"] = samples
	run.Coverage["max_history_len"] = map[bool]int{false: 2, true: 3}[t.Thorough]
	run.Coverage["extra_call_deviation_bound"] = map[bool]int{false: 1, true: 2}[t.Thorough]
	run.Assumptions = []string{
		"atomic unit = one ABCI / query call; goroutine interleavings inside the SDK are not enumerated",
		"states = committed heights of node A over all histories; transitions = complete executions of a history on a node B configuration, each compared at every height (app hash, per-tx code/codespace/data/gas/events, EndBlock events, query answers, committed custom+bank store hash)",
		"history alphabet: 12 mixed valid/failing AOL/DID/PNFT transactions and a send to the burn address, after a setup block populating all three modules; each sequence as one block and as one block per tx",
	}
	return run.Finish()
}

// c09Shard handles the histories i with i % n == shard, serially, and reports to the parent.
func c09Shard(t Tier, shard, n int) (run *report.Run) {
	run = report.NewRun("C09", t.Name, "model_checking", "E1+E5")
	e := newTwinEnv()
	maxLen := 2
	extras := 1
	if t.Thorough {
		maxLen = 3
		extras = 2
	}
	dl := deadline(t, 140*time.Second, 20*time.Minute)
	// (the short special histories first: they are few, and the listed finding F15 lives in one of them)
	cases := cleanupCases(e, shard, n)
	cases = append(cases, buildShard(e, maxLen, shard, n)...)
	cases = append(cases, upgradeCases(e, shard, n)...) // histories containing an in-process software upgrade
	cases = append(cases, longCases(e, shard, n)...)
	// every genesis: unusual but validation-passing genesis variants, each followed by one block of mixed traffic; they
	// are compared several times (each execution samples Go's map iteration order anew)
	gvNames := sortedKeys(genesisVariants)
	for gi, gv := range gvNames {
		if gi%n != shard {
			continue
		}
		blocks := [][]int{{0, 2, 5}}
		h, obs := e.buildHistoryG(blocks, gv)
		c := &histCase{blocks: blocks, name: "genesis=" + gv + " " + histName(e.mixedOps(), blocks), hist: h, obsA: obs}
		for k := 0; k < 5; k++ {
			cases = append(cases, c)
		}
	}
	// genesis files that a correct node refuses to start from (one malformed entry among well-formed ones): every replica
	// must reach the same verdict - all refuse, or all start with the same state; 8 independent attempts each
	if shard == 1%n {
		for _, gv := range sortedKeys(refusedGenesis) {
			seen := map[string]int{}
			for k := 0; k < 8; k++ {
				var w *world.World
				p := guard(func() {
					w = world.New(world.Options{Accounts: e.accounts(), Mutate: refusedGenesis[gv], ExtraCoins: twinExtraCoins})
				})
				if p != "" {
					seen["refused"]++
				} else {
					seen["started:"+committedStateHash(w)+":"+strings.Join(e.runQueries(w, 0), "|")]++
				}
			}
			if len(seen) > 1 {
				run.Add(report.Viol{Kind: "twin-divergence", Sig: "twin-divergence:genesis=" + gv + ":start-up verdict",
					Msg:    fmt.Sprintf("genesis %s: 8 independently constructed nodes reached %d different outcomes (refused %d times, %d distinct started states)", gv, len(seen), seen["refused"], len(seen)-map[bool]int{true: 1, false: 0}[seen["refused"] > 0]),
					Replay: map[string]any{"check": "C09", "genesis": gv}})
			}
		}
	}
	if len(cases) == 0 {
		run.Coverage["states"], run.Coverage["transitions"], run.Coverage["histories"], run.Coverage["configs"] = 0, 0, 0, 0
		run.Coverage["cap_hit"], run.Coverage["tx_outcomes"] = false, map[string]int{}
		return run
	}
	var mu sync.Mutex
	execs, configs := 0, 0
	capHit := false
	outcomes := map[string]int{}
	fail := func(c *histCase, cfg, diff string) {
		mu.Lock()
		defer mu.Unlock()
		run.Add(report.Viol{Kind: "twin-divergence", Sig: "twin-divergence:" + cfg + ":" + firstDiffKind(diff),
			Msg:    fmt.Sprintf("history %s: node A and node B (%s) disagree: %s", c.name, cfg, diff),
			Replay: map[string]any{"check": "C09", "history": c.name, "config": cfg}})
	}
	// ---- in-process second instances with extra calls ----
	var wg sync.WaitGroup
	sem := make(chan struct{}, 1)
	for _, c := range cases {
		wg.Add(1)
		sem <- struct{}{}
		func(c *histCase) {
			defer wg.Done()
			defer func() { <-sem }()
			if time.Now().After(dl) {
				mu.Lock()
				capHit = true
				mu.Unlock()
				return
			}
			n := abciCalls(c.hist)
			type cfg struct {
				name string
				o    RunOpts
			}
			cfgs := []cfg{
				{"second-instance", RunOpts{StopAt: -1}},
				{"checktx-before-every-tx", RunOpts{StopAt: -1, CheckTxBefore: true}},
				{"simulate-before-every-tx", RunOpts{StopAt: -1, SimulateBefore: true}},
				{"queries-between-all-calls", RunOpts{StopAt: -1, QueriesBetween: true}},
				{"all-extras", RunOpts{StopAt: -1, CheckTxBefore: true, SimulateBefore: true, QueriesBetween: true}},
				// node-local settings (app.toml) are not consensus: an operator demanding a high minimum gas price for his own
				// mempool, or running with the inter-block cache, must compute the same blocks
				{"node-config:minimum-gas-prices=5umed", RunOpts{StopAt: -1, MinGasPrices: "5umed"}},
				{"node-config:minimum-gas-prices=5umed+checktx", RunOpts{StopAt: -1, MinGasPrices: "5umed", CheckTxBefore: true}},
				{"node-config:inter-block-cache", RunOpts{StopAt: -1, InterBlockCache: true, QueriesBetween: true}},
				{"restarted-after-every-commit", RunOpts{StopAt: -1, RestartAfterCommit: true}},
			}
			// extra calls are placed at every position of the history's own blocks (the shared setup block's positions
			// are explored once, with the first history); CheckTx/Simulate precede a DeliverTx, queries go anywhere
			txPos := map[int]bool{}
			first := 0
			idx := 0
			for bi, b := range c.hist.Blocks {
				if bi == 1 {
					first = idx
				}
				idx++ // BeginBlock
				for range b {
					txPos[idx] = true
					idx++
				}
				idx += 2 // EndBlock, Commit
			}
			if c == cases[0] && shard == 0 {
				first = 0
			}
			type pk struct {
				p int
				k string
			}
			var slots []pk
			for p := first; p < n; p++ {
				if txPos[p] {
					slots = append(slots, pk{p, "check"}, pk{p, "simulate"})
				}
				slots = append(slots, pk{p, "query"})
			}
			for i, a := range slots {
				cfgs = append(cfgs, cfg{fmt.Sprintf("1-extra:%s@%d", a.k, a.p), RunOpts{StopAt: -1, ExtraAt: map[int]string{a.p: a.k}}})
				if extras >= 2 && !c.long {
					for _, b := range slots[i+1:] {
						if b.p == a.p {
							continue
						}
						cfgs = append(cfgs, cfg{fmt.Sprintf("2-extras:%s@%d,%s@%d", a.k, a.p, b.k, b.p), RunOpts{StopAt: -1, ExtraAt: map[int]string{a.p: a.k, b.p: b.k}}})
					}
				}
			}
			for _, cf := range cfgs {
				res := e.execHistory(c.hist, cf.o, dbm.NewMemDB())
				mu.Lock()
				execs++
				mu.Unlock()
				if d := diffObs(c.obsA, res.Obs); d != "" {
					fail(c, cf.name, d)
					break
				}
			}
			mu.Lock()
			configs += len(cfgs)
			for _, b := range c.obsA {
				for _, tx := range b.Txs {
					outcomes[fmt.Sprintf("%s/%d", tx.Codespace, tx.Code)]++
				}
			}
			mu.Unlock()
		}(c)
	}
	wg.Wait()
	// ---- independent processes: different start time, GOMAXPROCS, Go map seeds ----
	childCfgs := []struct {
		name string
		gmp  int
		o    RunOpts
	}{
		{"child-GOMAXPROCS=1", 1, RunOpts{StopAt: -1}},
		{"child-GOMAXPROCS=16", 16, RunOpts{StopAt: -1}},
		{"child-GOMAXPROCS=3-all-extras", 3, RunOpts{StopAt: -1, CheckTxBefore: true, SimulateBefore: true, QueriesBetween: true}},
		{"child-GOMAXPROCS=2-min-gas-prices=0.1umed-inter-block-cache", 2, RunOpts{StopAt: -1, MinGasPrices: "0.1umed", InterBlockCache: true}},
	}
	if t.Thorough {
		childCfgs = append(childCfgs, struct {
			name string
			gmp  int
			o    RunOpts
		}{"child-GOMAXPROCS=2-second-sample", 2, RunOpts{StopAt: -1}})
	}
	var cwg sync.WaitGroup
	for _, cc := range childCfgs {
		cwg.Add(1)
		func(name string, gmp int, o RunOpts) {
			defer cwg.Done()
			r, err := startReplica(gmp)
			if err != nil {
				fmt.Fprintln(os.Stderr, "HARNESS ERROR: cannot start replica:", err)
				os.Exit(2)
			}
			defer r.close()
			for i, c := range cases {
				if time.Now().After(dl) {
					mu.Lock()
					capHit = true
					mu.Unlock()
					return
				}
				resp, err := r.call(replicaReq{ID: i, History: c.hist, Opts: o})
				if err != nil || resp.Err != "" {
					fmt.Fprintf(os.Stderr, "HARNESS ERROR: replica %s failed on %s: %v %s\n", name, c.name, err, resp.Err)
					os.Exit(2)
				}
				mu.Lock()
				execs++
				mu.Unlock()
				if d := diffObs(c.obsA, resp.Res.Obs); d != "" {
					fail(c, name, d)
				}
			}
		}(cc.name, cc.gmp, cc.o)
	}
	cwg.Wait()
	states := 0
	for _, c := range cases {
		states += len(c.obsA)
	}
	run.Coverage["states"] = states
	run.Coverage["transitions"] = execs
	run.Coverage["histories"] = len(cases)
	run.Coverage["configs"] = configs
	run.Coverage["tx_outcomes"] = outcomes
	run.Coverage["cap_hit"] = capHit
	run.Coverage["samples"] = []any{cases[len(cases)/2].name}
	return run
}

func firstDiffKind(d string) string {
	if strings.HasPrefix(d, preAnteGasTag+":") {
		return preAnteGasTag
	}
	for _, k := range []string{"app hash", "tx", "query", "number of blocks"} {
		if len(d) > 0 && containsWord(d, k) {
			return k
		}
	}
	return "other"
}

func containsWord(s, w string) bool {
	for i := 0; i+len(w) <= len(s); i++ {
		if s[i:i+len(w)] == w {
			return true
		}
	}
	return false
}
