#!/opt/veriftools/pyvenv/bin/python
import json, jsonschema, glob, sys
jsonschema.validate(json.load(open('/verif/MANIFEST.json')), json.load(open('/root/.vp/MANIFEST.schema.json'))); print('manifest valid')
m = json.load(open('/verif/MANIFEST.json'))
sch = json.load(open('/root/.vp/EVIDENCE.schema.json'))
for c in m['checks']:
    f = c['evidence_file']
    try:
        e = json.load(open(f)); jsonschema.validate(e, sch)
        assert e['level'] == c['level_claimed']['category'], (e['level'], c['level_claimed']['category'])
        print(c['property_id'], 'evidence valid', e['tier'], 'violations', e.get('violations'))
    except Exception as ex:
        print(c['property_id'], 'EVIDENCE PROBLEM', str(ex)[:300])
