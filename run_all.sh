#!/bin/bash
# run_all.sh <quick|thorough>: every claimed check in sequence; summary at the end
TIER=${1:-quick}
cd /verif
for id in $(python3 -c "import json;print(' '.join(c['property_id'] for c in json.load(open('MANIFEST.json'))['checks']))"); do
  s=$(date +%s)
  ./run.sh $id $TIER > .gen/all_$id.log 2>&1
  rc=$?
  echo "$id rc=$rc $(( $(date +%s) - s ))s $(grep -c '^VIOLATION' .gen/all_$id.log) violations $(grep -c '^KNOWN-FINDING' .gen/all_$id.log) known"
done
