#!/bin/bash
# seed_keep.sh <worktree-name e.g. C05> <seed-id e.g. C05-1> <demo pkg> <demo run regex> "<needs>" : confirm + store under /verif/seeded/<seed-id>
WTN=$1; SID=$2; PKG=$3; RUN=$4; NEEDS=$5
WT=/tmp/seed/$WTN
/verif/seed_confirm.sh $WT "$PKG" "$RUN" | tee /tmp/seed/confirm_$SID.log
grep -q "CONFIRM: OK" /tmp/seed/confirm_$SID.log || { echo "NOT KEPT"; exit 1; }
D=/verif/seeded/$SID; mkdir -p $D/demo
git -C $WT diff > $D/patch.diff
for f in $(git -C $WT ls-files --others --exclude-standard); do mkdir -p $D/demo/$(dirname $f); cp $WT/$f $D/demo/$f; done
python3 - "$SID" "$WTN" "$PKG" "$RUN" "$NEEDS" <<'PY'
import json,sys,subprocess
sid,wtn,pkg,run,needs=sys.argv[1:6]
meta={"seed_id":sid,"breaks_property":wtn,"needs_to_manifest":needs,
 "files_changed":subprocess.run(["git","-C",f"/tmp/seed/{wtn}","diff","--name-only"],capture_output=True,text=True).stdout.split(),
 "demonstration":{"files":subprocess.run(["git","-C",f"/tmp/seed/{wtn}","ls-files","--others","--exclude-standard"],capture_output=True,text=True).stdout.split(),
                  "command":f"go test -vet=off -count=1 -run '{run}' {pkg}"},
 "confirmed":{"what_i_ran":"seed_confirm.sh in the scratch worktree: go build ./...; go test -vet=off -count=1 ./... with the change (demo set aside): all pass; demo with change: FAIL; demo after git stash: PASS",
              "log":open(f"/tmp/seed/confirm_{sid}.log").read().splitlines()},
 "origin":"sub-agent that saw only the property text and its own scratch worktree",
 "detected_by":{}}
json.dump(meta,open(f"/verif/seeded/{sid}/meta.json","w"),indent=1)
PY
echo "KEPT $D"
