# sourced by setup.sh / run.sh
export GOFLAGS=-mod=mod GOPROXY=off GOSUMDB=off GOTOOLCHAIN=local
export CARGO_NET_OFFLINE=true PIP_NO_INDEX=1
VERIF=/verif
GEN=$VERIF/.gen
