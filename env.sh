# sourced by setup.sh / run.sh
export GOFLAGS=-mod=mod GOPROXY=off GOSUMDB=off GOTOOLCHAIN=local
export CARGO_NET_OFFLINE=true PIP_NO_INDEX=1
VERIF=/verif
# Development aid only (never used by the registered commands): VERIF_REPO points the build at another checkout of the
# repository and VERIF_OUT at another output root (bin, .gen, evidence, replays), so that a seeded tree can be judged
# without touching /repo or the committed evidence. Unset, everything is /repo and /verif.
REPO=${VERIF_REPO:-/repo}
OUT=${VERIF_OUT:-/verif}
export VERIF_OUT=$OUT
GEN=$OUT/.gen
BIN=$OUT/bin
MODFLAG=""
if [ "$REPO" != "/repo" ]; then
  mkdir -p $GEN
  sed "s#=> /repo\$#=> $REPO#" $VERIF/go.mod > $GEN/go.mod
  cp $VERIF/go.sum $GEN/go.sum
  MODFLAG="-modfile=$GEN/go.mod"
fi
