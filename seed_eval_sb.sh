#!/bin/bash
# seed_eval_sb.sh <seed-id> [check ids...]: like seed_eval.sh but in a private scratch worktree of /repo's HEAD and a
# private output root (VERIF_REPO / VERIF_OUT), so /repo and the committed evidence are never touched and several seeds
# can be judged in parallel. The registered commands never use this mode.
SID=$1; shift
P=/verif/seeded/$SID/patch.diff
[ -f $P ] || { echo "no patch $P"; exit 2; }
W=/tmp/vseed/$SID
rm -rf $W; mkdir -p $W
git -C /repo worktree add --detach $W/repo HEAD -q || exit 2
git -C $W/repo apply $P || { echo "patch does not apply"; git -C /repo worktree remove --force $W/repo; exit 2; }
export VERIF_REPO=$W/repo VERIF_OUT=$W/out
mkdir -p $W/out/.gen
cd /verif
IDS="$@"
[ -n "$IDS" ] || IDS=$(python3 -c "import json;print(' '.join(c['property_id'] for c in json.load(open('/verif/MANIFEST.json'))['checks']))")
for id in $IDS; do
  s=$(date +%s)
  ./run.sh $id quick > $W/out/.gen/seed_$id.log 2>&1; rc=$?
  sig=$(grep -A1 '^VIOLATION' $W/out/.gen/seed_$id.log | grep 'sig=' | head -2 | sed 's/.*sig=//' | cut -c1-110 | tr '\n' ';')
  echo "$SID $id rc=$rc $(( $(date +%s) - s ))s viol=$(grep -c '^VIOLATION' $W/out/.gen/seed_$id.log) $sig"
done
git -C /repo worktree remove --force $W/repo; rm -rf $W/out/bin $W/out/.scratch
