#!/usr/bin/env python3
"""Generates MANIFEST.json from the table below (kept in one place so the manifest is always valid)."""
import json, sys

BASELINE_CMD = json.load(open('/root/.vp/BASELINE.json'))['cmd']

# id -> (level category, technique, design_ref, text, note)
CLAIMED = {}
def claim(pid, cat, technique, ref, text, note, engine):
    CLAIMED[pid] = dict(cat=cat, technique=technique, ref=ref, text=text, note=note, engine=engine)

exec(open('/verif/manifest_table.py').read())

props = [json.loads(l) for l in open('/verif/properties.jsonl')]
checks, na = [], []
for p in props:
    pid = p['id']
    if pid in CLAIMED:
        c = CLAIMED[pid]
        checks.append({
            "property_id": pid,
            "quick_cmd": f"./run.sh {pid} quick",
            "thorough_cmd": f"./run.sh {pid} thorough",
            "evidence_file": f"/verif/evidence/{pid}.json",
            "replay_cmd_template": "./run.sh replay {path}",
            "engine": c['engine'],
            "level_claimed": {"category": c['cat'], "text": c['text'], "design_ref": c['ref']},
            "level_note": c['note'],
            "technique": c['technique'],
        })
    else:
        na.append({"property_id": pid, "reason": NOT_CLAIMED.get(pid, "check not built yet in this session (work in progress); see DESIGN.md section 3 for the planned check")})

manifest = {
    "version": 1,
    "setup_cmd": "./setup.sh",
    "hooks": {
        "guard": "verif",
        "enable": "no source hooks in /repo: instrumentation is injected at build time with `go build -overlay` (baseapp fork helper appended to baseapp/state.go; import-rewritten copy of x/did/client/crypto/keystore.go), regenerated from /repo's working tree by ./gen_overlay.sh on every run",
        "baseline_off_cmd": BASELINE_CMD,
        "source_commits": [],
        "add_only": True,
    },
    "engines": ENGINES,
    "checks": checks,
    "not_applicable": na,
    "notes": NOTES,
}
json.dump(manifest, open('/verif/MANIFEST.json', 'w'), indent=1)
print("claimed:", [c['property_id'] for c in checks], "not claimed:", [n['property_id'] for n in na])
