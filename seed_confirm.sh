#!/bin/bash
# seed_confirm.sh <worktree> <demo-go-test-pkg> <demo-run-regex> : confirms a seeded change in its scratch worktree
#   1 build with change  2 existing suite with change (demo file set aside)  3 demo fails with change  4 demo passes without
export GOFLAGS=-mod=mod GOPROXY=off GOSUMDB=off GOTOOLCHAIN=local
WT=$1; PKG=$2; RUN=$3
cd $WT || exit 2
DEMOS=$(git ls-files --others --exclude-standard)
echo "changed: $(git diff --stat | tail -1)"; echo "demo files: $DEMOS"
go build ./... || { echo "CONFIRM: build FAILED"; exit 1; }
mkdir -p /tmp/seed/aside_$$; for f in $DEMOS; do mkdir -p /tmp/seed/aside_$$/$(dirname $f); mv $f /tmp/seed/aside_$$/$f; done
go test -vet=off -count=1 ./... > /tmp/seed/suite_$$.log 2>&1; rc=$?
for f in $DEMOS; do mv /tmp/seed/aside_$$/$f $f; done; rm -rf /tmp/seed/aside_$$
if [ $rc -ne 0 ]; then echo "CONFIRM: existing suite FAILS with change"; grep -E "^(FAIL|---)" /tmp/seed/suite_$$.log | head; exit 1; fi
echo "suite with change: pass"
go test -vet=off -count=1 -run "$RUN" $PKG > /tmp/seed/demo1_$$.log 2>&1; d1=$?
git diff > /tmp/seed/own_$$.patch
git apply -R /tmp/seed/own_$$.patch
go test -vet=off -count=1 -run "$RUN" $PKG > /tmp/seed/demo2_$$.log 2>&1; d2=$?
git apply /tmp/seed/own_$$.patch
echo "demo with change rc=$d1 (want !=0); demo without change rc=$d2 (want 0)"
if [ $d1 -ne 0 ] && [ $d2 -eq 0 ]; then echo "CONFIRM: OK"; exit 0; fi
tail -5 /tmp/seed/demo1_$$.log; tail -5 /tmp/seed/demo2_$$.log
echo "CONFIRM: demo does not discriminate"; exit 1
