#!/bin/bash
# seed_eval.sh <seed-id> [check ids...]: applies /verif/seeded/<seed-id>/patch.diff to /repo, runs the checks (default: all
# claimed, quick tier), prints one line per check, and ALWAYS restores /repo afterwards.
SID=$1; shift
cd /verif
P=/verif/seeded/$SID/patch.diff
[ -f $P ] || { echo "no patch $P"; exit 2; }
[ -z "$(git -C /repo status --porcelain)" ] || { echo "/repo is not clean"; exit 2; }
git -C /repo apply $P || { echo "patch does not apply"; exit 2; }
IDS="$@"
[ -n "$IDS" ] || IDS=$(python3 -c "import json;print(' '.join(c['property_id'] for c in json.load(open('MANIFEST.json'))['checks']))")
for id in $IDS; do
  s=$(date +%s)
  ./run.sh $id quick > .gen/seed_${SID}_$id.log 2>&1; rc=$?
  sig=$(grep -A1 '^VIOLATION' .gen/seed_${SID}_$id.log | grep 'sig=' | head -2 | sed 's/.*sig=//' | cut -c1-110 | tr '\n' ';')
  echo "$SID $id rc=$rc $(( $(date +%s) - s ))s viol=$(grep -c '^VIOLATION' .gen/seed_${SID}_$id.log) $sig"
done
git -C /repo checkout -- . ; git -C /repo clean -fdq
[ -z "$(git -C /repo status --porcelain)" ] || echo "WARNING: /repo not clean after revert"
