#!/bin/bash
# Run once after a fresh restore, offline: generate overlays and pre-build the check binaries (warms GOCACHE).
. /verif/env.sh
cd /verif
set -e
mkdir -p bin evidence .scratch
./gen_overlay.sh
go build -overlay $GEN/overlay.json -o $BIN/pcheck ./cmd/pcheck
go build -overlay $GEN/overlay_ks.json -o $BIN/kscheck ./cmd/kscheck
go build -race -overlay $GEN/overlay_race.json -o $BIN/ksrace ./cmd/ksrace
echo "setup ok"
