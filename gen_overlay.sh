#!/bin/bash
# Regenerates build overlays from the current working tree of /repo and the module cache.
set -e
. /verif/env.sh
cd $VERIF
mkdir -p $GEN
SDK=$(go list $MODFLAG -m -f '{{.Dir}}' github.com/cosmos/cosmos-sdk)
[ -f "$SDK/baseapp/state.go" ] || { echo "cannot locate cosmos-sdk baseapp" >&2; exit 2; }
cat "$SDK/baseapp/state.go" overlays/baseapp_fork_appendix.go.txt > $GEN/baseapp_state.go.new
cmp -s $GEN/baseapp_state.go.new $GEN/baseapp_state.go 2>/dev/null || mv $GEN/baseapp_state.go.new $GEN/baseapp_state.go
rm -f $GEN/baseapp_state.go.new
cat > $GEN/overlay.json <<J
{"Replace": {"$SDK/baseapp/state.go": "$GEN/baseapp_state.go"}}
J
# key store with scheduler shims (C20): import rewrite of the working-tree file
KS=$REPO/x/did/client/crypto/keystore.go
sed -e 's#^\t"sync"$#\tsync "verif/engine/sched/vsync"#' \
    -e 's#^\t"time"$#\ttime "verif/engine/sched/vtime"#' \
    -e 's#^\t"os"$#\tos "verif/engine/sched/vos"#' \
    -e 's#^\t"golang.org/x/crypto/pbkdf2"$#\tpbkdf2 "verif/engine/sched/vpbkdf2"#' \
    -e 's#^\t"path/filepath"$#\tfilepath "verif/engine/sched/vfilepath"#' \
    $KS > $GEN/keystore.go.new
cmp -s $GEN/keystore.go.new $GEN/keystore.go 2>/dev/null || mv $GEN/keystore.go.new $GEN/keystore.go
rm -f $GEN/keystore.go.new
# race pass: real sync/time/os, only the KDF cost is clamped
sed -e 's#^\t"golang.org/x/crypto/pbkdf2"$#\tpbkdf2 "verif/engine/sched/vpbkdf2"#' $KS > $GEN/keystore_race.go.new
cmp -s $GEN/keystore_race.go.new $GEN/keystore_race.go 2>/dev/null || mv $GEN/keystore_race.go.new $GEN/keystore_race.go
rm -f $GEN/keystore_race.go.new
cat > $GEN/overlay_race.json <<J
{"Replace": {"$KS": "$GEN/keystore_race.go", "$SDK/baseapp/state.go": "$GEN/baseapp_state.go"}}
J
cat > $GEN/overlay_ks.json <<J
{"Replace": {"$KS": "$GEN/keystore.go"}}
J
