#!/bin/bash
# final_matrix.sh <stream-index> <streams> [extra check ids...]: judges every kept seed (seeded/<id>/patch.diff) with the check of
# the property it breaks (plus the extra checks given), in a private worktree + output root (seed_eval_sb.sh), and appends
# one line per (seed, check) to seeded/final_matrix.<stream>.log. Development aid; never used by the registered commands.
I=$1; N=$2; shift 2; EXTRA="$@"
cd /verif
k=0
for d in $(ls -d seeded/C*-* | sort); do
  sid=$(basename $d)
  k=$((k+1)); [ $((k % N)) -eq $I ] || continue
  own=${sid%%-*}
  ./seed_eval_sb.sh $sid $own $EXTRA >> seeded/final_matrix.$I.log 2>&1
done
echo "stream $I done" >> seeded/final_matrix.$I.log
