// Package world is engine E1: a real panacea app.App under a deterministic driver.
package world

import (
	"crypto/sha256"
	"encoding/json"
	"fmt"
	"os"
	"path/filepath"
	"sort"
	"sync"
	"time"

	dbm "github.com/cometbft/cometbft-db"
	abci "github.com/cometbft/cometbft/abci/types"
	"github.com/cometbft/cometbft/crypto/ed25519"
	"github.com/cometbft/cometbft/libs/log"
	tmproto "github.com/cometbft/cometbft/proto/tendermint/types"
	tmtypes "github.com/cometbft/cometbft/types"
	"github.com/cosmos/cosmos-sdk/baseapp"
	"github.com/cosmos/cosmos-sdk/client"
	"github.com/cosmos/cosmos-sdk/client/flags"
	clienttx "github.com/cosmos/cosmos-sdk/client/tx"
	"github.com/cosmos/cosmos-sdk/codec"
	"github.com/cosmos/cosmos-sdk/crypto/keys/secp256k1"
	cryptotypes "github.com/cosmos/cosmos-sdk/crypto/types"
	"github.com/cosmos/cosmos-sdk/store"
	simtestutil "github.com/cosmos/cosmos-sdk/testutil/sims"
	sdk "github.com/cosmos/cosmos-sdk/types"
	"github.com/cosmos/cosmos-sdk/types/tx/signing"
	authsigning "github.com/cosmos/cosmos-sdk/x/auth/signing"
	authtypes "github.com/cosmos/cosmos-sdk/x/auth/types"
	banktypes "github.com/cosmos/cosmos-sdk/x/bank/types"
	gogoproto "github.com/cosmos/gogoproto/proto"

	"github.com/medibloc/panacea-core/v2/app"
)

const ChainID = "verif-1"

var (
	initOnce   sync.Once
	ScratchDir = func() string {
		if s := os.Getenv("VERIF_OUT"); s != "" {
			return s + "/.scratch"
		}
		return "/verif/.scratch"
	}()
	BaseTime = time.Date(2030, 1, 1, 0, 0, 0, 0, time.UTC)
)

// Init seals the bech32 configuration ("panacea" prefix). Safe to call repeatedly.
func Init() {
	initOnce.Do(func() {
		app.SetConfig()
		_ = os.MkdirAll(ScratchDir, 0o755)
	})
}

// Account is a plain secp256k1 key account derived from a fixed secret.
type Account struct {
	Name string
	Priv *secp256k1.PrivKey
	Addr sdk.AccAddress
	Bech string
}

func NewAccount(name string) *Account {
	Init()
	priv := secp256k1.GenPrivKeyFromSecret([]byte("verif-account-" + name))
	addr := sdk.AccAddress(priv.PubKey().Address())
	return &Account{Name: name, Priv: priv, Addr: addr, Bech: addr.String()}
}

// Options configure a fresh World.
type Options struct {
	Accounts      []*Account                                           // funded genesis accounts
	Mutate        func(gs map[string]json.RawMessage, cdc codec.Codec) // optional genesis mutation hook
	DB            dbm.DB                                               // default MemDB
	Upgrades      int                                                  // if >0: number of entries of app.Upgrades to keep ("old binary")
	ExtraCoins    sdk.Coins                                            // extra per-account coins
	Home          string                                               // node home (default: one shared scratch home per process)
	Node          NodeConfig                                           // node-local settings (app.toml): must never influence consensus
	InitialHeight int64                                                // genesis initial_height (default 1): a chain continuing an exported state starts higher
}

// NodeConfig is what an operator sets locally in app.toml / on the command line; `panacead start` turns these into
// app options and baseapp options exactly as done here.
type NodeConfig struct {
	MinGasPrices    string // "minimum-gas-prices"
	InterBlockCache bool   // "inter-block-cache"
}

// World wraps one application instance plus the driver state.
type World struct {
	App           *app.App
	DB            dbm.DB
	Home          string
	Height        int64 // height of the block currently open (or last committed if !InBlock)
	InBlock       bool
	Opts          Options
	ValSet        *tmtypes.ValidatorSet
	LastHash      []byte
	Genesis       []byte // app state bytes used at InitChain
	InitialHeight int64
}

func BlockTime(height int64) time.Time { return BaseTime.Add(time.Duration(height) * 5 * time.Second) }

func valSet() *tmtypes.ValidatorSet {
	pk := ed25519.GenPrivKeyFromSecret([]byte("verif-validator")).PubKey()
	return tmtypes.NewValidatorSet([]*tmtypes.Validator{tmtypes.NewValidator(pk, 1)})
}

var (
	sharedHomeOnce sync.Once
	sharedHome     string
)

// NewHome creates a private node home directory under the scratch dir.
func NewHome() string {
	Init()
	d, err := os.MkdirTemp(ScratchDir, "home-")
	if err != nil {
		panic(err)
	}
	return d
}

func homeFor(opts Options) string {
	if opts.Home != "" {
		return opts.Home
	}
	sharedHomeOnce.Do(func() { sharedHome = NewHome() })
	return sharedHome
}

var newAppMu sync.Mutex

// newApp constructs the application exactly as a node does (app.New with loadLatest=true, so that anything the
// start-up path does - store loaders, checks, hooks - is executed). app.New calls os.Exit(1) when loading fails, which
// would kill the harness without a verdict; therefore a database that already holds state is first opened on a COPY
// with loadLatest=false + LoadLatestVersion, and a failure there is reported as a panic the caller can judge.
func newApp(db dbm.DB, home string, upgrades int, node NodeConfig) *app.App {
	if err := probeOpen(db, home, upgrades); err != nil {
		panic(fmt.Errorf("NODE CANNOT START: loading the latest version failed: %w", err))
	}
	return construct(db, home, upgrades, true, node)
}

func construct(db dbm.DB, home string, upgrades int, loadLatest bool, node NodeConfig) *app.App {
	if upgrades > 0 && upgrades < len(fullUpgrades) {
		// "old binary": only C19 does this, single-threaded; the package-level list is swapped under a lock
		newAppMu.Lock()
		defer newAppMu.Unlock()
		app.Upgrades = fullUpgrades[:upgrades]
		defer func() { app.Upgrades = fullUpgrades }()
	}
	appOpts := simtestutil.AppOptionsMap{flags.FlagHome: home}
	bopts := []func(*baseapp.BaseApp){baseapp.SetChainID(ChainID)}
	if node.MinGasPrices != "" {
		appOpts["minimum-gas-prices"] = node.MinGasPrices
		bopts = append(bopts, baseapp.SetMinGasPrices(node.MinGasPrices))
	}
	if node.InterBlockCache {
		appOpts["inter-block-cache"] = true
		bopts = append(bopts, baseapp.SetInterBlockCache(store.NewCommitKVStoreCacheManager()))
	}
	return app.New(log.NewNopLogger(), db, nil, loadLatest, appOpts, bopts...)
}

// probeOpen dry-runs the store loading on a copy of an in-memory database (other database kinds are opened by child
// processes whose exit status is judged by the parent).
func probeOpen(db dbm.DB, home string, upgrades int) error {
	mem, ok := db.(*dbm.MemDB)
	if !ok {
		return nil
	}
	it, err := mem.Iterator(nil, nil)
	if err != nil {
		return nil
	}
	cp := dbm.NewMemDB()
	n := 0
	for ; it.Valid(); it.Next() {
		_ = cp.Set(append([]byte{}, it.Key()...), append([]byte{}, it.Value()...))
		n++
	}
	it.Close()
	if n == 0 {
		return nil // fresh database: nothing to load
	}
	a := construct(cp, home, upgrades, false, NodeConfig{})
	return a.LoadLatestVersion()
}

var fullUpgrades = app.Upgrades

var DefaultConsensusParams = &tmproto.ConsensusParams{
	Block:     &tmproto.BlockParams{MaxBytes: 200000, MaxGas: -1},
	Evidence:  &tmproto.EvidenceParams{MaxAgeNumBlocks: 302400, MaxAgeDuration: 504 * time.Hour, MaxBytes: 10000},
	Validator: &tmproto.ValidatorParams{PubKeyTypes: []string{tmtypes.ABCIPubKeyTypeEd25519}},
}

// GenesisFor builds the default genesis app state for the given funded accounts.
func GenesisFor(a *app.App, accounts []*Account, extra sdk.Coins) app.GenesisState {
	gs := app.ModuleBasics.DefaultGenesis(a.AppCodec())
	var genAccs []authtypes.GenesisAccount
	var balances []banktypes.Balance
	for _, acc := range accounts {
		genAccs = append(genAccs, authtypes.NewBaseAccount(acc.Addr, nil, 0, 0))
		coins := sdk.NewCoins(sdk.NewInt64Coin("umed", 1_000_000_000_000_000), sdk.NewInt64Coin("uxyz", 1_000_000_000)).Add(extra...)
		balances = append(balances, banktypes.Balance{Address: acc.Bech, Coins: coins})
	}
	gs, err := simtestutil.GenesisStateWithValSet(a.AppCodec(), gs, valSet(), genAccs, balances...)
	if err != nil {
		panic(err)
	}
	return gs
}

// New creates an app on a fresh DB, runs InitChain + Commit and opens the next block.
func New(opts Options) *World {
	Init()
	if opts.DB == nil {
		opts.DB = dbm.NewMemDB()
	}
	w := &World{DB: opts.DB, Home: homeFor(opts), Opts: opts, ValSet: valSet()}
	w.App = newApp(w.DB, w.Home, opts.Upgrades, opts.Node)
	gs := GenesisFor(w.App, opts.Accounts, opts.ExtraCoins)
	if opts.Mutate != nil {
		opts.Mutate(gs, w.App.AppCodec())
	}
	bz, err := json.Marshal(gs)
	if err != nil {
		panic(err)
	}
	ih := opts.InitialHeight
	if ih < 1 {
		ih = 1
	}
	w.initChain(bz, ih, nil)
	return w
}

func (w *World) initChain(appState []byte, initialHeight int64, vals []abci.ValidatorUpdate) {
	w.Genesis = appState
	w.InitialHeight = initialHeight
	w.App.InitChain(abci.RequestInitChain{
		ChainId:         ChainID,
		Time:            BlockTime(initialHeight - 1),
		Validators:      vals,
		ConsensusParams: DefaultConsensusParams,
		AppStateBytes:   appState,
		InitialHeight:   initialHeight,
	})
	// the first block (initialHeight) carries the genesis writes; run it empty.
	w.Height = initialHeight - 1
	w.InBlock = false
	w.beginBlockAfterInit()
}

// beginBlockAfterInit: after InitChain the deliverState holds genesis writes; the first BeginBlock must be
// for InitialHeight. We run that block empty and commit, then open the next one.
func (w *World) beginBlockAfterInit() {
	w.BeginBlock()
	w.EndBlock()
	w.Commit()
	w.BeginBlock()
}

func (w *World) Header(height int64) tmproto.Header {
	return tmproto.Header{
		ChainID:            ChainID,
		Height:             height,
		Time:               BlockTime(height),
		ProposerAddress:    w.ValSet.Validators[0].Address,
		ValidatorsHash:     w.ValSet.Hash(),
		NextValidatorsHash: w.ValSet.Hash(),
		AppHash:            w.LastHash,
	}
}

func (w *World) BeginBlock() abci.ResponseBeginBlock {
	if w.InBlock {
		panic("BeginBlock inside block")
	}
	w.Height++
	w.InBlock = true
	return w.App.BeginBlock(abci.RequestBeginBlock{
		Header: w.Header(w.Height),
	})
}

func (w *World) EndBlock() abci.ResponseEndBlock {
	return w.App.EndBlock(abci.RequestEndBlock{Height: w.Height})
}

func (w *World) Commit() []byte {
	res := w.App.Commit()
	w.InBlock = false
	w.LastHash = res.Data
	return res.Data
}

// NextBlock ends and commits the open block and opens the next one.
func (w *World) NextBlock() []byte {
	w.EndBlock()
	h := w.Commit()
	w.BeginBlock()
	return h
}

// Restart commits the open block, re-opens the application on the same database and opens the next block.
func (w *World) Restart() {
	if w.InBlock {
		w.EndBlock()
		w.Commit()
	}
	w.Reopen()
	w.BeginBlock()
}

// Reopen constructs a new application object on the same DB (no block opened).
func (w *World) Reopen() {
	w.App = newApp(w.DB, w.Home, w.Opts.Upgrades, w.Opts.Node)
	w.InBlock = false
	w.Height = w.App.LastBlockHeight()
	w.LastHash = w.App.LastCommitID().Hash
}

// Open constructs an application on an existing database (no InitChain, no block opened).
func Open(opts Options) *World {
	Init()
	w := &World{DB: opts.DB, Home: homeFor(opts), Opts: opts, ValSet: valSet()}
	w.Reopen()
	return w
}

// Export commits the open block and returns the exported genesis.
func (w *World) Export() (appState []byte, vals []abci.ValidatorUpdate, height int64, err error) {
	if w.InBlock {
		w.EndBlock()
		w.Commit()
	}
	exp, err := w.App.ExportAppStateAndValidators(false, nil, nil)
	if err != nil {
		return nil, nil, 0, err
	}
	for _, v := range exp.Validators {
		vals = append(vals, tmtypes.TM2PB.ValidatorUpdate(tmtypes.NewValidator(v.PubKey, v.Power)))
	}
	return exp.AppState, vals, exp.Height, nil
}

// ImportFrom creates a fresh World initialised from an exported genesis.
func ImportFrom(opts Options, appState []byte, vals []abci.ValidatorUpdate, height int64) (w *World, err error) {
	Init()
	opts.DB = dbm.NewMemDB()
	w = &World{DB: opts.DB, Home: homeFor(opts), Opts: opts, ValSet: valSet()}
	w.App = newApp(w.DB, w.Home, opts.Upgrades, opts.Node)
	defer func() {
		if r := recover(); r != nil {
			err = fmt.Errorf("InitChain panicked: %v", r)
		}
	}()
	w.initChain(appState, height, vals)
	return w, nil
}

// ExportImport = Export + ImportFrom; the receiver is left committed (not in a block).
func (w *World) ExportImport() (*World, error) {
	st, vals, h, err := w.Export()
	if err != nil {
		return nil, err
	}
	return ImportFrom(w.Opts, st, vals, h)
}

// Close releases the world (the shared home is removed by CleanScratch at process exit).
func (w *World) Close() {}

// Ctx returns a context over the open block's working state.
func (w *World) Ctx() sdk.Context {
	if !w.InBlock {
		return w.App.NewUncachedContext(false, w.Header(w.Height))
	}
	return w.App.BaseApp.NewContext(false, w.Header(w.Height))
}

// Fork pushes a cache layer onto the deliver state; discard() drops everything done since.
func (w *World) Fork() (discard func()) {
	return w.App.BaseApp.VerifFork()
}

// ---- transactions -------------------------------------------------------------------------

type TxSpec struct {
	Msgs     []sdk.Msg
	Signers  []*Account // one signature per entry, in this order
	Fee      sdk.Coins
	Gas      uint64
	Mode     signing.SignMode // default DIRECT
	Memo     string
	FeePayer string // explicit AuthInfo.Fee.Payer (normally empty)
	SeqDelta int    // added to every signer's sequence (for stale-sequence replays)
}

func (w *World) TxConfig() client.TxConfig { return w.App.TxConfig() }

// AccountNumSeq reads the signer's account number and sequence from the current working state.
func (w *World) AccountNumSeq(addr sdk.AccAddress) (uint64, uint64, bool) {
	acc := w.App.AccountKeeper.GetAccount(w.Ctx(), addr)
	if acc == nil {
		return 0, 0, false
	}
	return acc.GetAccountNumber(), acc.GetSequence(), true
}

// BuildTx signs spec against the current working state and returns the encoded transaction.
func (w *World) BuildTx(spec TxSpec) ([]byte, error) {
	txc := w.TxConfig()
	b := txc.NewTxBuilder()
	if err := b.SetMsgs(spec.Msgs...); err != nil {
		return nil, err
	}
	gas := spec.Gas
	if gas == 0 {
		gas = 2_000_000
	}
	b.SetGasLimit(gas)
	b.SetFeeAmount(spec.Fee)
	b.SetMemo(spec.Memo)
	if spec.FeePayer != "" {
		a, err := sdk.AccAddressFromBech32(spec.FeePayer)
		if err != nil {
			return nil, err
		}
		b.SetFeePayer(a)
	}
	mode := spec.Mode
	if mode == signing.SignMode_SIGN_MODE_UNSPECIFIED {
		mode = signing.SignMode_SIGN_MODE_DIRECT
	}
	type ns struct{ num, seq uint64 }
	info := make([]ns, len(spec.Signers))
	sigs := make([]signing.SignatureV2, len(spec.Signers))
	for i, s := range spec.Signers {
		num, seq, _ := w.AccountNumSeq(s.Addr)
		seq = uint64(int64(seq) + int64(spec.SeqDelta))
		info[i] = ns{num, seq}
		sigs[i] = signing.SignatureV2{
			PubKey:   s.Priv.PubKey(),
			Data:     &signing.SingleSignatureData{SignMode: mode},
			Sequence: seq,
		}
	}
	if err := b.SetSignatures(sigs...); err != nil {
		return nil, err
	}
	for i, s := range spec.Signers {
		sd := authsigning.SignerData{
			Address:       s.Bech,
			ChainID:       ChainID,
			AccountNumber: info[i].num,
			Sequence:      info[i].seq,
			PubKey:        s.Priv.PubKey(),
		}
		sig, err := clienttx.SignWithPrivKey(mode, sd, b, cryptotypes.PrivKey(s.Priv), txc, info[i].seq)
		if err != nil {
			return nil, err
		}
		sigs[i] = sig
	}
	if err := b.SetSignatures(sigs...); err != nil {
		return nil, err
	}
	return txc.TxEncoder()(b.GetTx())
}

// Deliver submits raw tx bytes through DeliverTx.
func (w *World) Deliver(txBytes []byte) abci.ResponseDeliverTx {
	return w.App.DeliverTx(abci.RequestDeliverTx{Tx: txBytes})
}

// Send = BuildTx + Deliver; a build error (e.g. amino-json not supported by the message) is reported as code 0xFFFF.
func (w *World) Send(spec TxSpec) abci.ResponseDeliverTx {
	bz, err := w.BuildTx(spec)
	if err != nil {
		return abci.ResponseDeliverTx{Code: 0xFFFF, Codespace: "verif-build", Log: err.Error()}
	}
	return w.Deliver(bz)
}

// MsgResponses decodes the TxMsgData of a successful delivery.
func (w *World) MsgResponses(res abci.ResponseDeliverTx) []interface{} {
	var d sdk.TxMsgData
	if err := w.App.AppCodec().Unmarshal(res.Data, &d); err != nil {
		return nil
	}
	var out []interface{}
	for _, any := range d.MsgResponses {
		m, err := w.App.InterfaceRegistry().Resolve(any.TypeUrl)
		if err == nil {
			if err = gogoproto.Unmarshal(any.Value, m); err == nil {
				out = append(out, m)
				continue
			}
		}
		out = append(out, any)
	}
	return out
}

// ---- observation ----------------------------------------------------------------------------

type KV struct{ K, V []byte }

// Dump returns all pairs of a module store (through the working state), sorted by key.
func (w *World) Dump(store string) []KV {
	return DumpCtx(w.Ctx(), w.App, store)
}

func DumpCtx(ctx sdk.Context, a *app.App, store string) []KV {
	key := a.GetKey(store)
	if key == nil {
		panic("no such store: " + store)
	}
	it := ctx.KVStore(key).Iterator(nil, nil)
	defer it.Close()
	var out []KV
	for ; it.Valid(); it.Next() {
		out = append(out, KV{append([]byte{}, it.Key()...), append([]byte{}, it.Value()...)})
	}
	return out
}

// DumpPrefix returns pairs whose key starts with prefix.
func (w *World) DumpPrefix(store string, prefix []byte) []KV {
	var out []KV
	for _, kv := range w.Dump(store) {
		if len(kv.K) >= len(prefix) && string(kv.K[:len(prefix)]) == string(prefix) {
			out = append(out, kv)
		}
	}
	return out
}

func HashKVs(h interface{ Write([]byte) (int, error) }, name string, kvs []KV) {
	var l [8]byte
	put := func(b []byte) {
		n := len(b)
		for i := 0; i < 8; i++ {
			l[i] = byte(n >> (8 * i))
		}
		h.Write(l[:])
		h.Write(b)
	}
	put([]byte(name))
	for _, kv := range kvs {
		put(kv.K)
		put(kv.V)
	}
}

// StoreHash hashes the sorted raw dumps of the named stores.
func (w *World) StoreHash(stores ...string) [32]byte {
	h := sha256.New()
	for _, s := range stores {
		HashKVs(h, s, w.Dump(s))
	}
	var out [32]byte
	copy(out[:], h.Sum(nil))
	return out
}

func EqualKVs(a, b []KV) bool {
	if len(a) != len(b) {
		return false
	}
	for i := range a {
		if string(a[i].K) != string(b[i].K) || string(a[i].V) != string(b[i].V) {
			return false
		}
	}
	return true
}

// DiffKVs describes the first difference (for reports).
func DiffKVs(a, b []KV) string {
	am := map[string]string{}
	for _, kv := range a {
		am[string(kv.K)] = string(kv.V)
	}
	bm := map[string]string{}
	for _, kv := range b {
		bm[string(kv.K)] = string(kv.V)
	}
	var keys []string
	for k := range am {
		keys = append(keys, k)
	}
	for k := range bm {
		if _, ok := am[k]; !ok {
			keys = append(keys, k)
		}
	}
	sort.Strings(keys)
	for _, k := range keys {
		av, aok := am[k]
		bv, bok := bm[k]
		switch {
		case aok && !bok:
			return fmt.Sprintf("key %x only before (value %x)", k, av)
		case !aok && bok:
			return fmt.Sprintf("key %x only after (value %x)", k, bv)
		case av != bv:
			return fmt.Sprintf("key %x: %x -> %x", k, av, bv)
		}
	}
	return ""
}

// QueryABCI runs a gRPC query through BaseApp.Query (committed state).
func (w *World) QueryABCI(path string, req interface{ Marshal() ([]byte, error) }, height int64) abci.ResponseQuery {
	bz, err := req.Marshal()
	if err != nil {
		panic(err)
	}
	return w.App.Query(abci.RequestQuery{Path: path, Data: bz, Height: height})
}

// CleanScratch removes the scratch directory (called by the dispatcher at exit).
func CleanScratch() {
	if sharedHome != "" {
		_ = os.RemoveAll(sharedHome)
	}
}

var _ = filepath.Join

// PredecessorVersions are the consensus versions of the custom modules in the release this tree descends from (pinned:
// the baseline commit). A chain written by that release carries them in its module version map.
var PredecessorVersions = map[string]uint64{"aol": 1, "did": 1, "pnft": 1, "burn": 1}

// AsWrittenByPredecessor rewrites the custom modules' entries of the module version map (deliver state) to the pinned
// predecessor values: the state an in-order upgraded node really has when the next upgrade height arrives. On a tree that
// did not bump a consensus version this changes nothing.
func (w *World) AsWrittenByPredecessor() {
	ctx := w.Ctx()
	vm := w.App.UpgradeKeeper.GetModuleVersionMap(ctx)
	for m, v := range PredecessorVersions {
		if _, ok := vm[m]; ok {
			vm[m] = v
		}
	}
	w.App.UpgradeKeeper.SetModuleVersionMap(ctx, vm)
}

// StartOnDatabase constructs the application the way a node does on an existing database (store loaders chosen by the
// binary itself from upgrade-info.json in home/data) and loads the latest version; a panic or error is returned.
func StartOnDatabase(db dbm.DB, home string) (err error) {
	defer func() {
		if r := recover(); r != nil {
			err = fmt.Errorf("panic while starting: %v", r)
		}
	}()
	a := construct(db, home, 0, false, NodeConfig{})
	return a.LoadLatestVersion()
}
