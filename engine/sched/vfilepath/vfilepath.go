// Package vfilepath replaces "path/filepath" inside the key store (a scheduling point before the directory scan).
package vfilepath

import (
	"path/filepath"

	"verif/engine/sched"
)

func Join(elem ...string) string { return filepath.Join(elem...) }
func Base(p string) string       { return filepath.Base(p) }
func Dir(p string) string        { return filepath.Dir(p) }

func Glob(pattern string) ([]string, error) {
	if x := sched.Current(); x != nil {
		x.Yield(sched.Op{Name: "Glob"})
	}
	return filepath.Glob(pattern)
}
