// Package vtime replaces "time" inside the key store: Now is an environment choice point owned by the explorer
// (answer 0: a later instant than every previous call; answer 1: the same instant as the previous call).
package vtime

import (
	"time"

	"verif/engine/sched"
)

type (
	Time     = time.Time
	Duration = time.Duration
)

const (
	Nanosecond  = time.Nanosecond
	Millisecond = time.Millisecond
	Second      = time.Second
)

var (
	base = time.Date(2031, 5, 6, 7, 8, 9, 0, time.UTC)
	last time.Time
	// LastNow records, per thread id, the instant returned to that thread's most recent call (read by the harness).
	LastNow = map[int]time.Time{}
)

// Reset is called by the harness before every execution.
func Reset() {
	last = time.Time{}
	LastNow = map[int]time.Time{}
}

func Now() time.Time {
	x := sched.Current()
	if x == nil {
		return time.Now()
	}
	var t time.Time
	if last.IsZero() {
		t = base
	} else if x.Choose(2, "clock") == 1 {
		t = last // two calls observe the same instant
	} else {
		t = last.Add(1500 * time.Millisecond)
	}
	last = t
	LastNow[x.ThreadID()] = t
	return t
}

func Since(t time.Time) time.Duration { return Now().Sub(t) }
func Sleep(d time.Duration)           {}
func Unix(sec, nsec int64) time.Time  { return time.Unix(sec, nsec) }
