// Package vos replaces "os" inside the key store: it forwards to the real file system (the harness points the key
// store at a per-execution scratch directory) and inserts scheduling points before Create, Open, Stat and before every
// Read/Write of a file, so that a missing lock exposes torn reads and check-then-act races.
package vos

import (
	"os"

	"verif/engine/sched"
)

const ModePerm = os.ModePerm

type FileMode = os.FileMode
type FileInfo = os.FileInfo

var (
	ErrNotExist = os.ErrNotExist
	ErrExist    = os.ErrExist
)

func point(name string) {
	if x := sched.Current(); x != nil {
		x.Yield(sched.Op{Name: name})
	}
}

type File struct{ f *os.File }

func (f *File) Write(p []byte) (int, error) {
	// a write lands in two halves with a scheduling point in between (a reader without the lock can observe a torn file)
	if x := sched.Current(); x != nil && len(p) > 1 {
		point("Write.1")
		n, err := f.f.Write(p[:len(p)/2])
		if err != nil {
			return n, err
		}
		point("Write.2")
		m, err := f.f.Write(p[len(p)/2:])
		return n + m, err
	}
	return f.f.Write(p)
}

func (f *File) Read(p []byte) (int, error) { point("Read"); return f.f.Read(p) }
func (f *File) Close() error               { return f.f.Close() }
func (f *File) Name() string               { return f.f.Name() }
func (f *File) Sync() error                { return f.f.Sync() }

func MkdirAll(path string, perm os.FileMode) error { return os.MkdirAll(path, perm) }

func Create(name string) (*File, error) {
	point("Create")
	f, err := os.Create(name)
	if err != nil {
		return nil, err
	}
	return &File{f}, nil
}

func Open(name string) (*File, error) {
	point("Open")
	f, err := os.Open(name)
	if err != nil {
		return nil, err
	}
	return &File{f}, nil
}

func OpenFile(name string, flag int, perm os.FileMode) (*File, error) {
	point("OpenFile")
	f, err := os.OpenFile(name, flag, perm)
	if err != nil {
		return nil, err
	}
	return &File{f}, nil
}

func Stat(name string) (os.FileInfo, error) { point("Stat"); return os.Stat(name) }
func IsNotExist(err error) bool             { return os.IsNotExist(err) }
func IsExist(err error) bool                { return os.IsExist(err) }
func Remove(name string) error              { point("Remove"); return os.Remove(name) }
func Rename(a, b string) error              { point("Rename"); return os.Rename(a, b) }
func ReadFile(name string) ([]byte, error)  { point("ReadFile"); return os.ReadFile(name) }
func WriteFile(name string, data []byte, perm os.FileMode) error {
	point("WriteFile")
	return os.WriteFile(name, data, perm)
}

const (
	O_RDONLY = os.O_RDONLY
	O_WRONLY = os.O_WRONLY
	O_RDWR   = os.O_RDWR
	O_CREATE = os.O_CREATE
	O_EXCL   = os.O_EXCL
	O_TRUNC  = os.O_TRUNC
	O_APPEND = os.O_APPEND
)
