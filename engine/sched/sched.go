// Package sched is engine E4: a cooperative scheduler that owns every interleaving of the goroutines of one
// execution, plus the iterative preemption-bounding explorer that enumerates them.
//
// Hooked operations (the shims in vsync, vos, vtime, vfilepath) call Yield before they take effect. Exactly one
// thread runs at any time; between two hooked operations a thread runs atomically. The effect of a blocking
// operation (mutex acquisition) is applied by the scheduler at the moment the thread is chosen, so "enabled" is
// always evaluated on a consistent shim state.
package sched

import (
	"fmt"
	"runtime"
	"strings"
	"sync"
)

// Op is a pending hooked operation of a thread.
type Op struct {
	Name    string
	Enabled func() bool // nil = always enabled
	Apply   func()      // effect applied when the thread is chosen (nil = none)
}

type thread struct {
	id      int
	resume  chan struct{}
	pending *Op
	done    bool
	started bool
}

// Point records one decision of an execution.
type Point struct {
	Data                bool // environment answer (clock) rather than a thread choice
	NAlt                int
	Chosen              int
	RunningStillEnabled bool
	Label               string
}

// Exec is one controlled execution.
type Exec struct {
	threads  []*thread
	yield    chan *thread
	running  *thread
	prefix   []int
	Points   []Point
	Choices  []int
	Deadlock bool
	Blocked  []string // pending ops of blocked threads at deadlock
	aborted  bool
	wg       sync.WaitGroup
	Clock    int64 // logical time: number of scheduler decisions taken
	lastRun  int
	Diverged string
	Trace    []string // "t1:RLock" ...
}

var current *Exec

// Current returns the execution the calling goroutine belongs to (nil outside controlled runs).
func Current() *Exec { return current }

// Yield is called by a hooked operation of the running thread.
func (x *Exec) Yield(op Op) {
	if x.aborted {
		return
	}
	t := x.running
	t.pending = &op
	x.yield <- t
	<-t.resume
	if x.aborted {
		runtime.Goexit()
	}
}

// Choose is an environment choice point with n alternatives (0 = default answer).
func (x *Exec) Choose(n int, label string) int {
	if x.aborted {
		return 0
	}
	c := 0
	i := len(x.Choices)
	if i < len(x.prefix) {
		c = x.prefix[i]
		if c >= n {
			x.Diverged = fmt.Sprintf("replay divergence: data choice %d out of range %d at point %d", c, n, i)
			c = 0
		}
	}
	x.Points = append(x.Points, Point{Data: true, NAlt: n, Chosen: c, Label: label})
	x.Choices = append(x.Choices, c)
	return c
}

// Now returns the logical clock (used to timestamp call/return events of the harness).
func (x *Exec) Now() int64 { x.Clock++; return x.Clock }

// ThreadID of the running thread.
func (x *Exec) ThreadID() int { return x.running.id }

// Run executes bodies as controlled threads following the choice prefix, then default choices.
func Run(prefix []int, bodies []func()) *Exec {
	x := &Exec{yield: make(chan *thread), prefix: prefix, lastRun: -1}
	current = x
	defer func() { current = nil }()
	for i, b := range bodies {
		t := &thread{id: i, resume: make(chan struct{})}
		x.threads = append(x.threads, t)
		t.pending = &Op{Name: "start"}
		body := b
		x.wg.Add(1)
		go func() {
			defer x.wg.Done()
			<-t.resume
			if x.aborted {
				return
			}
			defer func() {
				// normal completion or Goexit after abort
				if !x.aborted {
					t.done = true
					t.pending = nil
					x.yield <- t
				}
			}()
			body()
		}()
	}
	for {
		var enabled []*thread
		allDone := true
		for _, t := range x.threads {
			if t.done {
				continue
			}
			allDone = false
			if t.pending.Enabled == nil || t.pending.Enabled() {
				enabled = append(enabled, t)
			}
		}
		if allDone {
			return x
		}
		if len(enabled) == 0 {
			x.Deadlock = true
			for _, t := range x.threads {
				if !t.done {
					x.Blocked = append(x.Blocked, fmt.Sprintf("t%d:%s", t.id, t.pending.Name))
				}
			}
			x.abort()
			return x
		}
		// canonical order: the thread that ran last first (if still enabled), then ascending ids
		stillEnabled := false
		ordered := make([]*thread, 0, len(enabled))
		for _, t := range enabled {
			if t.id == x.lastRun {
				stillEnabled = true
				ordered = append(ordered, t)
			}
		}
		for _, t := range enabled {
			if t.id != x.lastRun {
				ordered = append(ordered, t)
			}
		}
		c := 0
		i := len(x.Choices)
		if len(ordered) > 1 {
			if i < len(x.prefix) {
				c = x.prefix[i]
				if c >= len(ordered) {
					x.Diverged = fmt.Sprintf("replay divergence: choice %d out of range %d at point %d", c, len(ordered), i)
					x.abort()
					return x
				}
			}
			x.Points = append(x.Points, Point{NAlt: len(ordered), Chosen: c, RunningStillEnabled: stillEnabled, Label: ordered[c].pending.Name})
			x.Choices = append(x.Choices, c)
		}
		t := ordered[c]
		if t.pending.Apply != nil {
			t.pending.Apply()
		}
		x.Trace = append(x.Trace, fmt.Sprintf("t%d:%s", t.id, t.pending.Name))
		x.Clock++
		x.running = t
		x.lastRun = t.id
		t.resume <- struct{}{}
		<-x.yield
		if len(x.Trace) > 100000 {
			x.Diverged = "livelock guard: more than 100000 steps"
			x.abort()
			return x
		}
	}
}

// abort releases every blocked goroutine; hooks become no-ops and the goroutines exit through Goexit.
func (x *Exec) abort() {
	x.aborted = true
	for _, t := range x.threads {
		if !t.done {
			t.resume <- struct{}{} // every live thread is parked on (or about to reach) its resume channel
		}
	}
	// wait until every released goroutine has unwound (their deferred unlocks are no-ops while aborted)
	x.wg.Wait()
}

func (x *Exec) TraceString() string { return strings.Join(x.Trace, " ") }

// Explorer enumerates all executions with at most Bound preemptions and ClockBound non-default clock answers.
type Explorer struct {
	Bound      int
	ClockBound int
	Run        func(prefix []int) *Exec
	Check      func(x *Exec) // oracle for one execution
	Executions int
	MaxPoints  int
	Stop       func() bool
	Capped     bool
}

func (e *Explorer) Explore() { e.explore(nil) }

func (e *Explorer) explore(prefix []int) {
	if e.Stop != nil && e.Stop() {
		e.Capped = true
		return
	}
	x := e.Run(prefix)
	e.Executions++
	if len(x.Points) > e.MaxPoints {
		e.MaxPoints = len(x.Points)
	}
	e.Check(x)
	pre, clk := 0, 0
	for i := 0; i < len(x.Points); i++ {
		p := x.Points[i]
		if i >= len(prefix) {
			for alt := 1; alt < p.NAlt; alt++ {
				cp, cc := pre, clk
				if p.Data {
					cc++
				} else if p.RunningStillEnabled {
					cp++ // switching away from a thread that could continue is a preemption
				}
				if cp > e.Bound || cc > e.ClockBound {
					continue
				}
				np := append(append([]int{}, x.Choices[:i]...), alt)
				e.explore(np)
			}
		}
		// account the cost of the choice actually taken at i
		if p.Chosen != 0 {
			if p.Data {
				clk++
			} else if p.RunningStillEnabled {
				pre++
			}
		}
	}
}
