// Package vpbkdf2 replaces golang.org/x/crypto/pbkdf2 inside the key store for the scheduler runs: the real PBKDF2 with
// the iteration count clamped (262144 iterations per call would make exhaustive exploration impossible; the KDF is
// irrelevant to locking). C17's key-file enumeration uses the real package.
package vpbkdf2

import (
	"hash"

	"golang.org/x/crypto/pbkdf2"
)

func Key(password, salt []byte, iter, keyLen int, h func() hash.Hash) []byte {
	if iter > 1 {
		iter = 1
	}
	return pbkdf2.Key(password, salt, iter, keyLen, h)
}
