// Package vsync replaces "sync" inside the key store when it is compiled for the controlled scheduler. RWMutex models
// Go's documented semantics: a blocked Lock excludes new readers (writer preference), which is what makes recursive
// read locking a deadlock. Outside a controlled run the types fall back to the real sync primitives.
package vsync

import (
	"sync"

	"verif/engine/sched"
)

type RWMutex struct {
	real    sync.RWMutex
	writer  bool
	readers int
	waiting int // writers that announced Lock and have not acquired yet
}

func (m *RWMutex) RLock() {
	x := sched.Current()
	if x == nil {
		m.real.RLock()
		return
	}
	x.Yield(sched.Op{Name: "RLock", Enabled: func() bool { return !m.writer && m.waiting == 0 }, Apply: func() { m.readers++ }})
}

func (m *RWMutex) RUnlock() {
	x := sched.Current()
	if x == nil {
		m.real.RUnlock()
		return
	}
	x.Yield(sched.Op{Name: "RUnlock", Apply: func() {
		if m.readers <= 0 {
			panic("vsync: RUnlock of unlocked RWMutex")
		}
		m.readers--
	}})
}

func (m *RWMutex) Lock() {
	x := sched.Current()
	if x == nil {
		m.real.Lock()
		return
	}
	x.Yield(sched.Op{Name: "Lock.announce", Apply: func() { m.waiting++ }})
	x.Yield(sched.Op{Name: "Lock.acquire", Enabled: func() bool { return !m.writer && m.readers == 0 }, Apply: func() { m.waiting--; m.writer = true }})
}

func (m *RWMutex) Unlock() {
	x := sched.Current()
	if x == nil {
		m.real.Unlock()
		return
	}
	x.Yield(sched.Op{Name: "Unlock", Apply: func() {
		if !m.writer {
			panic("vsync: Unlock of unlocked RWMutex")
		}
		m.writer = false
	}})
}

// Mutex, provided for robustness (a changed key store may switch to a plain mutex).
type Mutex struct {
	real   sync.Mutex
	locked bool
}

func (m *Mutex) Lock() {
	x := sched.Current()
	if x == nil {
		m.real.Lock()
		return
	}
	x.Yield(sched.Op{Name: "Mutex.Lock", Enabled: func() bool { return !m.locked }, Apply: func() { m.locked = true }})
}

func (m *Mutex) Unlock() {
	x := sched.Current()
	if x == nil {
		m.real.Unlock()
		return
	}
	x.Yield(sched.Op{Name: "Mutex.Unlock", Apply: func() { m.locked = false }})
}

func (m *Mutex) TryLock() bool {
	x := sched.Current()
	if x == nil {
		return m.real.TryLock()
	}
	ok := false
	x.Yield(sched.Op{Name: "Mutex.TryLock", Apply: func() {
		if !m.locked {
			m.locked = true
			ok = true
		}
	}})
	return ok
}

type (
	Once      = sync.Once
	WaitGroup = sync.WaitGroup
	Map       = sync.Map
	Pool      = sync.Pool
	Locker    = sync.Locker
)
