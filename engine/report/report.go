// Package report writes evidence files, replay files and the VIOLATION / KNOWN-FINDING lines.
package report

import (
	"encoding/json"
	"fmt"
	"os"
	"path/filepath"
	"sort"
	"strings"
	"time"
)

// Root is where evidence/, replays/ are written and known_findings.json is read ("/verif"; a development run may
// redirect the outputs with VERIF_OUT, known_findings.json is always read from /verif).
var Root = func() string {
	if s := os.Getenv("VERIF_OUT"); s != "" {
		return s
	}
	return "/verif"
}()

type Known struct {
	Property string `json:"property"`
	Status   string `json:"status"` // "known" | "fixed"
	Sig      string `json:"sig"`    // exact violation signature
	Commit   string `json:"commit,omitempty"`
	What     string `json:"what"`
}

func LoadKnown() []Known {
	bz, err := os.ReadFile("/verif/known_findings.json")
	if err != nil {
		return nil
	}
	var k []Known
	if err := json.Unmarshal(bz, &k); err != nil {
		fmt.Fprintf(os.Stderr, "HARNESS ERROR: known_findings.json: %v\n", err)
		os.Exit(2)
	}
	return k
}

// Viol is the generic violation record shared by all engines.
type Viol struct {
	Kind   string `json:"kind"`
	Sig    string `json:"signature"`
	Msg    string `json:"message"`
	Replay any    `json:"replay"` // op list / input / schedule, engine specific
}

type Run struct {
	ID          string
	Tier        string
	Seed        int64
	Level       string // model_checking | exploration | fault_enumeration
	Engine      string
	Start       time.Time
	Coverage    map[string]any
	Assumptions []string
	Viols       []Viol
}

func NewRun(id, tier, level, engine string) *Run {
	seed := int64(0)
	if s := os.Getenv("VERIF_SEED"); s != "" {
		fmt.Sscan(s, &seed)
	}
	return &Run{ID: id, Tier: tier, Seed: seed, Level: level, Engine: engine, Start: time.Now(), Coverage: map[string]any{}}
}

func (r *Run) Add(v Viol) { r.Viols = append(r.Viols, v) }

// Finish prints verdict lines, writes replay files and evidence, and returns the process exit code.
func (r *Run) Finish() int {
	known := LoadKnown()
	sort.SliceStable(r.Viols, func(i, j int) bool { return r.Viols[i].Sig < r.Viols[j].Sig })
	seen := map[string]bool{}
	nViol, nKnown := 0, 0
	var knownSeen []string
	dir := filepath.Join(Root, "replays", r.ID)
	for _, v := range r.Viols {
		if seen[v.Sig] {
			continue
		}
		seen[v.Sig] = true
		matched := false
		for _, k := range known {
			if k.Property == r.ID && k.Status == "known" && k.Sig == v.Sig {
				fmt.Printf("KNOWN-FINDING: property=%s %s [%s]\n", r.ID, k.What, v.Sig)
				knownSeen = append(knownSeen, v.Sig)
				matched = true
				nKnown++
				break
			}
		}
		if matched {
			continue
		}
		nViol++
		_ = os.MkdirAll(dir, 0o755)
		path := filepath.Join(dir, fmt.Sprintf("%03d.json", nViol))
		bz, _ := json.MarshalIndent(map[string]any{
			"property": r.ID, "engine": r.Engine, "tier": r.Tier, "kind": v.Kind, "signature": v.Sig,
			"message": v.Msg, "replay": v.Replay,
		}, "", " ")
		_ = os.WriteFile(path, bz, 0o644)
		fmt.Printf("VIOLATION property=%s replay=%s\n", r.ID, path)
		fmt.Printf("  kind=%s sig=%s\n  %s\n", v.Kind, v.Sig, strings.ReplaceAll(v.Msg, "\n", "\n  "))
	}
	r.Coverage["known_findings_seen"] = knownSeen
	ev := map[string]any{
		"property_id": r.ID,
		"tier":        r.Tier,
		"seed":        r.Seed,
		"level":       r.Level,
		"coverage":    r.Coverage,
		"assumptions": r.Assumptions,
		"wall_s":      time.Since(r.Start).Seconds(),
		"violations":  nViol,
	}
	_ = os.MkdirAll(filepath.Join(Root, "evidence"), 0o755)
	bz, _ := json.MarshalIndent(ev, "", " ")
	if err := os.WriteFile(filepath.Join(Root, "evidence", r.ID+".json"), bz, 0o644); err != nil {
		fmt.Fprintf(os.Stderr, "HARNESS ERROR: cannot write evidence: %v\n", err)
		return 2
	}
	fmt.Printf("RESULT property=%s tier=%s violations=%d known_findings=%d wall=%.1fs\n", r.ID, r.Tier, nViol, nKnown, time.Since(r.Start).Seconds())
	if nViol > 0 {
		return 1
	}
	return 0
}
