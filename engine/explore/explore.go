// Package explore is engine E2: explicit-state depth-first search over the real transition
// function (DeliverTx on a forked deliver state), with a reference model stepped alongside.
package explore

import (
	"crypto/sha256"
	"encoding/binary"
	"fmt"
	"os"
	"runtime"
	"sort"
	"strings"
	"sync"
	"sync/atomic"
	"time"

	abci "github.com/cometbft/cometbft/abci/types"
	upgradetypes "github.com/cosmos/cosmos-sdk/x/upgrade/types"
	"github.com/medibloc/panacea-core/v2/app"

	"verif/engine/world"
)

// Op is one alphabet entry.
type Op struct {
	Name string
	Ctl  string // "" = transaction; "NB" next block, "RS" restart, "XI" export/import, "UG" in-process software upgrade
	// Aux: the transaction built by Tx is not delivered but only simulated ("simulate") or checked ("checktx") on the
	// node; such a call must not change any observed store (the model is left unchanged)
	Aux string
	// Rollback marks ops that must leave no trace at all (a transaction whose later message fails, a simulated or
	// checked transaction). They never change the observed stores, so state hashing alone would prune everything behind
	// them; the explorer instead remembers which of them a path has used (at most Bounds.Rollbacks per path) and treats
	// that as part of the state, so that code keeping state outside the store is still driven through them.
	Rollback bool
	// Tx builds the transaction against the current world/model (sequence numbers, DID proofs ...).
	// Returning nil means "not applicable in this state" (the entry is skipped).
	Tx func(w *world.World, m any) *world.TxSpec
}

// Violation is one failed oracle evaluation.
type Violation struct {
	Kind string   // oracle name, stable
	Sig  string   // structural signature used for dedup and known-finding matching
	Msg  string   // human readable detail
	Path []string // op names leading to (and including) the failing step
}

// Step is handed to the transition oracle.
type Step struct {
	W      *world.World
	Before any // model before (must not be mutated)
	M      any // model after clone; the oracle mutates it to the expected successor
	Op     *Op
	Spec   *world.TxSpec
	Res    abci.ResponseDeliverTx
	Pre    map[string][]world.KV // dumps of Stores taken before the op
	viol   *[]Violation
	path   []string
}

func (s *Step) Fail(kind, sig, format string, a ...any) {
	*s.viol = append(*s.viol, Violation{Kind: kind, Sig: sig, Msg: fmt.Sprintf(format, a...), Path: append([]string{}, s.path...)})
}

// State is handed to the per-distinct-state oracle.
type State struct {
	W    *world.World
	M    any
	viol *[]Violation
	path []string
}

// Path returns the op names that lead to this state.
func (s *State) Path() []string { return s.path }

func (s *State) Fail(kind, sig, format string, a ...any) {
	*s.viol = append(*s.viol, Violation{Kind: kind, Sig: sig, Msg: fmt.Sprintf(format, a...), Path: append([]string{}, s.path...)})
}

// System describes one check's state machine.
type System struct {
	ID     string
	Stores []string // module stores observed (canonical state + rejected-tx dump equality)
	Fresh  func() (*world.World, any)
	Clone  func(m any) any
	Ops    []Op
	// OnStep is the transition oracle; it must bring s.M to the model's successor state.
	OnStep func(s *Step)
	// OnCtl is called for control ops (model hook, e.g. nothing to do); w is the world after the op.
	OnCtl func(w *world.World, m any, ctl string)
	// OnState is the state oracle, evaluated once per distinct canonical state.
	OnState func(s *State)
	// Extra returns model-only history that must distinguish canonical states (may be nil).
	Extra func(m any) []byte
	// Outcome classifies a transition for the vacuity self-check (e.g. "ok/accept").
	Outcome func(s *Step) string
}

type Bounds struct {
	Depth    int // max number of transaction ops per path
	V        int // max number of control ops per path
	Deadline time.Time
	Workers  int
	// NoFork: every transition is executed by sequential replay of the whole path on a fresh World (no forked deliver
	// state). Slower, but sound for a tree that keeps state outside the store (fork/discard would leave traces there).
	NoFork bool
	// Rollbacks: max number of Rollback ops per path (default 1)
	Rollbacks int
}

type Result struct {
	States      int
	Transitions int64
	Paths       int64 // maximal paths executed on the implementation with model agreement
	CtlReplays  int64
	MaxDepth    int
	Outcomes    map[string]int64
	Violations  []Violation   // deduplicated by Sig, shortest path each
	Candidates  [][]Violation // per signature: alternative paths (shortest first) for confirmation
	CapHit      bool
	Samples     [][]string
	Bounds      Bounds
	WallS       float64
}

type visitEntry struct{ d, v int8 }

type explorer struct {
	sys     *System
	b       Bounds
	mu      sync.Mutex
	visited map[[16]byte][]visitEntry
	trans   atomic.Int64
	paths   atomic.Int64
	ctl     atomic.Int64
	capHit  atomic.Bool
	maxDep  atomic.Int64
	outMu   sync.Mutex
	out     map[string]int64
	viols   map[string][]Violation // per signature: up to 6 shortest distinct paths
	samples [][]string
}

// rollbacksIn lists (sorted) the Rollback ops a path has used.
func (e *explorer) rollbacksIn(path []int) []string {
	var out []string
	for _, p := range path {
		if e.sys.Ops[p].Rollback {
			out = append(out, e.sys.Ops[p].Name)
		}
	}
	sort.Strings(out)
	return out
}

func (e *explorer) canon(w *world.World, m any, path []int) [16]byte {
	h := sha256.New()
	for _, r := range e.rollbacksIn(path) {
		h.Write([]byte("RB:" + r + ";"))
	}
	for _, s := range e.sys.Stores {
		world.HashKVs(h, s, w.Dump(s))
	}
	var hb [8]byte
	binary.LittleEndian.PutUint64(hb[:], uint64(w.Height))
	h.Write(hb[:])
	if e.sys.Extra != nil {
		h.Write(e.sys.Extra(m))
	}
	var out [16]byte
	copy(out[:], h.Sum(nil))
	return out
}

// visit returns (isNewState, shouldExpand).
func (e *explorer) visit(k [16]byte, d, v int) (bool, bool) {
	e.mu.Lock()
	defer e.mu.Unlock()
	ents, ok := e.visited[k]
	for _, x := range ents {
		if int(x.d) >= d && int(x.v) >= v {
			return false, false
		}
	}
	// drop dominated entries
	n := ents[:0]
	for _, x := range ents {
		if !(int(x.d) <= d && int(x.v) <= v) {
			n = append(n, x)
		}
	}
	e.visited[k] = append(n, visitEntry{int8(d), int8(v)})
	return !ok, true
}

func (e *explorer) record(vs []Violation) {
	if len(vs) == 0 {
		return
	}
	e.outMu.Lock()
	defer e.outMu.Unlock()
	for _, v := range vs {
		cur := e.viols[v.Sig]
		dup := false
		for _, c := range cur {
			if strings.Join(c.Path, "|") == strings.Join(v.Path, "|") {
				dup = true
			}
		}
		if dup {
			continue
		}
		cur = append(cur, v)
		// prefer paths that go through a rollback-route op (on a tree that keeps state outside the store these are the
		// ones that reproduce sequentially; shorter paths may owe their failure to discarded forks), then shorter paths
		hasRB := func(x Violation) int {
			for _, n := range x.Path {
				if strings.HasPrefix(n, "Tx[") || strings.HasPrefix(n, "Simulate(") || strings.HasPrefix(n, "CheckTx(") {
					return 0
				}
			}
			return 1
		}
		sort.SliceStable(cur, func(i, j int) bool {
			if hasRB(cur[i]) != hasRB(cur[j]) {
				return hasRB(cur[i]) < hasRB(cur[j])
			}
			return len(cur[i].Path) < len(cur[j].Path)
		})
		nrb, nplain := 0, 0
		var keep []Violation
		for _, c := range cur {
			if hasRB(c) == 0 && nrb < 5 {
				keep = append(keep, c)
				nrb++
			} else if hasRB(c) == 1 && nplain < 3 {
				keep = append(keep, c)
				nplain++
			}
		}
		e.viols[v.Sig] = keep
	}
}

func (e *explorer) outcome(c string) {
	e.outMu.Lock()
	e.out[c]++
	e.outMu.Unlock()
}

func (e *explorer) expired() bool {
	if e.capHit.Load() {
		return true
	}
	if !e.b.Deadline.IsZero() && time.Now().After(e.b.Deadline) {
		e.capHit.Store(true)
		return true
	}
	return false
}

func pathNames(sys *System, path []int) []string {
	out := make([]string, len(path))
	for i, p := range path {
		out[i] = sys.Ops[p].Name
	}
	return out
}

func (e *explorer) preDumps(w *world.World) map[string][]world.KV {
	m := make(map[string][]world.KV, len(e.sys.Stores))
	for _, s := range e.sys.Stores {
		m[s] = w.Dump(s)
	}
	return m
}

// applyTx executes one tx op on w (caller forks), returns model successor and violations.
func applyTx(sys *System, w *world.World, m any, op *Op, names []string, pre map[string][]world.KV) (any, []Violation, string, bool) {
	spec := op.Tx(w, m)
	if spec == nil {
		return nil, nil, "", false
	}
	var vs []Violation
	m2 := sys.Clone(m)
	if op.Aux != "" {
		bz, err := w.BuildTx(*spec)
		if err == nil {
			if op.Aux == "simulate" {
				_, _, _ = w.App.Simulate(bz)
			} else {
				w.App.CheckTx(abci.RequestCheckTx{Tx: bz, Type: abci.CheckTxType_New})
			}
		}
		for _, s := range sys.Stores {
			if post := w.Dump(s); !world.EqualKVs(pre[s], post) {
				vs = append(vs, Violation{Kind: "aux-changed-state", Sig: "aux-changed-state:" + op.Name, Msg: fmt.Sprintf("%s of a transaction changed store %s: %s", op.Aux, s, world.DiffKVs(pre[s], post)), Path: append([]string{}, names...)})
			}
		}
		return m2, vs, "aux/" + op.Aux, true
	}
	res := w.Send(*spec)
	st := &Step{W: w, Before: m, M: m2, Op: op, Spec: spec, Res: res, Pre: pre, viol: &vs, path: names}
	sys.OnStep(st)
	oc := ""
	if sys.Outcome != nil {
		oc = sys.Outcome(st)
	} else if res.Code == 0 {
		oc = "accepted"
	} else {
		oc = fmt.Sprintf("rejected/%s/%d", res.Codespace, res.Code)
	}
	return m2, vs, oc, true
}

// applyCtl executes a control op on a *fresh* world by replaying path (which ends in the control op).
func ApplyCtl(w *world.World, ctl string) (*world.World, error) {
	switch ctl {
	case "NB":
		w.NextBlock()
		return w, nil
	case "RS":
		w.Restart()
		return w, nil
	case "UG":
		// in-process software upgrade: the newest registered plan is scheduled for the next height on the deliver state (what a
		// passed upgrade proposal does), the next BeginBlock executes its handler, one more block follows. A plan can run once.
		name := app.Upgrades[len(app.Upgrades)-1].UpgradeName
		if w.App.UpgradeKeeper.GetDoneHeight(w.Ctx(), name) != 0 {
			return w, nil
		}
		w.AsWrittenByPredecessor()
		if err := w.App.UpgradeKeeper.ScheduleUpgrade(w.Ctx(), upgradetypes.Plan{Name: name, Height: w.Height + 1}); err != nil {
			return nil, err
		}
		w.NextBlock()
		w.NextBlock()
		return w, nil
	case "XI":
		w2, err := w.ExportImport()
		if err != nil {
			return nil, err
		}
		return w2, nil
	}
	return nil, fmt.Errorf("unknown control op %q", ctl)
}

// Replay executes path sequentially on a fresh world WITHOUT forks or the explorer, evaluating all
// oracles on the way. It is used (a) to produce the successor of control ops, (b) to confirm violations.
func Replay(sys *System, path []int, checkStates bool) (w *world.World, m any, vs []Violation, err error) {
	defer func() {
		if r := recover(); r != nil {
			err = fmt.Errorf("panic during replay: %v", r)
		}
	}()
	w, m = sys.Fresh()
	names := pathNames(sys, path)
	for i, pi := range path {
		op := &sys.Ops[pi]
		if op.Ctl != "" {
			var w2 *world.World
			var e error
			func() {
				defer func() {
					if r := recover(); r != nil {
						e = fmt.Errorf("block processing panicked: %v", r)
					}
				}()
				w2, e = ApplyCtl(w, op.Ctl)
			}()
			if e != nil {
				vs = append(vs, Violation{Kind: "ctl-failed", Sig: "ctl-failed:" + op.Ctl + ":" + firstLine(e.Error()), Msg: e.Error(), Path: names[:i+1]})
				return w, m, vs, nil
			}
			w = w2
			if sys.OnCtl != nil {
				sys.OnCtl(w, m, op.Ctl)
			}
		} else {
			pre := map[string][]world.KV{}
			for _, s := range sys.Stores {
				pre[s] = w.Dump(s)
			}
			m2, v, _, ok := applyTx(sys, w, m, op, names[:i+1], pre)
			if !ok {
				return w, m, vs, fmt.Errorf("op %s not applicable during replay at step %d", op.Name, i)
			}
			vs = append(vs, v...)
			m = m2
		}
		if checkStates && sys.OnState != nil {
			st := &State{W: w, M: m, viol: &vs, path: names[:i+1]}
			sys.OnState(st)
		}
	}
	return w, m, vs, nil
}

func firstLine(s string) string {
	if i := strings.IndexByte(s, '\n'); i >= 0 {
		s = s[:i]
	}
	if len(s) > 160 {
		s = s[:160]
	}
	return s
}

func (e *explorer) dfs(w *world.World, m any, path []int, forced []int, d, v int) {
	if int64(len(path)) > e.maxDep.Load() {
		e.maxDep.Store(int64(len(path)))
	}
	if e.expired() {
		return
	}
	level := len(path)
	expanded := false
	var pre map[string][]world.KV
	for i := range e.sys.Ops {
		if level < len(forced) && forced[level] != i {
			continue
		}
		op := &e.sys.Ops[i]
		if e.expired() {
			return
		}
		if op.Ctl != "" {
			if v == 0 {
				continue
			}
			np := append(append([]int{}, path...), i)
			w2, m2, vs, err := Replay(e.sys, np, false)
			e.ctl.Add(1)
			e.trans.Add(1)
			if err != nil {
				fmt.Fprintf(os.Stderr, "HARNESS ERROR: replay of %v diverged: %v\n", pathNames(e.sys, np), err)
				os.Exit(2)
			}
			expanded = true
			e.outcome("ctl/" + op.Ctl)
			if len(vs) > 0 {
				e.record(vs)
				continue
			}
			e.descend(w2, m2, np, forced, d, v-1)
			continue
		}
		if d == 0 {
			continue
		}
		if op.Rollback && len(e.rollbacksIn(path)) >= e.b.Rollbacks {
			continue
		}
		if e.b.NoFork {
			if op.Tx(w, m) == nil {
				continue
			}
			np := append(append([]int{}, path...), i)
			w2, m2, vs, err := Replay(e.sys, np, false)
			e.trans.Add(1)
			if err != nil {
				fmt.Fprintf(os.Stderr, "HARNESS ERROR: replay of %v diverged: %v\n", pathNames(e.sys, np), err)
				os.Exit(2)
			}
			expanded = true
			e.outcome("nofork")
			if len(vs) > 0 {
				e.record(vs)
				continue
			}
			e.descend(w2, m2, np, forced, d-1, v)
			continue
		}
		if pre == nil {
			pre = e.preDumps(w)
		}
		np := append(append([]int{}, path...), i)
		names := pathNames(e.sys, np)
		discard := w.Fork()
		m2, vs, oc, ok := applyTx(e.sys, w, m, op, names, pre)
		if !ok {
			discard()
			continue
		}
		expanded = true
		e.trans.Add(1)
		e.outcome(oc)
		if len(vs) > 0 {
			e.record(vs)
			discard()
			continue
		}
		e.descend(w, m2, np, forced, d-1, v)
		discard()
	}
	if !expanded {
		e.leaf(path)
	}
}

func (e *explorer) leaf(path []int) {
	n := e.paths.Add(1)
	if n <= 3 || n%50000 == 0 {
		e.outMu.Lock()
		if len(e.samples) < 10 {
			e.samples = append(e.samples, pathNames(e.sys, path))
		}
		e.outMu.Unlock()
	}
}

// descend evaluates the state oracle (once per distinct state) and recurses unless dominated.
func (e *explorer) descend(w *world.World, m any, path []int, forced []int, d, v int) {
	k := e.canon(w, m, path)
	isNew, expand := e.visit(k, d, v)
	if isNew && e.sys.OnState != nil {
		var vs []Violation
		st := &State{W: w, M: m, viol: &vs, path: pathNames(e.sys, path)}
		e.sys.OnState(st)
		if len(vs) > 0 {
			e.record(vs)
			return
		}
	}
	if len(path) < len(forced) {
		expand = true // forced prefix levels are shared between work items
	}
	if !expand || (d == 0 && v == 0) {
		e.leaf(path)
		return
	}
	e.dfs(w, m, path, forced, d, v)
}

// Run explores the system within bounds using b.Workers goroutines, each owning a private World.
func Run(sys *System, b Bounds) *Result {
	t0 := time.Now()
	if b.Rollbacks == 0 {
		b.Rollbacks = 1
	}
	if b.Workers <= 0 {
		b.Workers = runtime.NumCPU()
		if s := os.Getenv("VERIF_WORKERS"); s != "" {
			fmt.Sscan(s, &b.Workers)
		}
	}
	e := &explorer{sys: sys, b: b, visited: map[[16]byte][]visitEntry{}, out: map[string]int64{}, viols: map[string][]Violation{}}
	// root state
	w0, m0 := sys.Fresh()
	k := e.canon(w0, m0, nil)
	e.visit(k, b.Depth, b.V)
	if sys.OnState != nil {
		var vs []Violation
		sys.OnState(&State{W: w0, M: m0, viol: &vs})
		e.record(vs)
	}
	// work items: forced prefixes of length 2 (or 1 when bounds are tiny)
	var items [][]int
	n := len(sys.Ops)
	plen := 2
	if b.Depth+b.V < 2 {
		plen = 1
	}
	if plen == 1 {
		for i := 0; i < n; i++ {
			items = append(items, []int{i})
		}
	} else {
		for i := 0; i < n; i++ {
			for j := 0; j < n; j++ {
				items = append(items, []int{i, j})
			}
		}
	}
	ch := make(chan []int, len(items))
	for _, it := range items {
		ch <- it
	}
	close(ch)
	var wg sync.WaitGroup
	for wi := 0; wi < b.Workers; wi++ {
		wg.Add(1)
		go func(first bool) {
			defer wg.Done()
			w, m := w0, m0
			if !first {
				w, m = sys.Fresh()
			}
			for it := range ch {
				if e.expired() {
					return
				}
				e.dfs(w, m, nil, it, b.Depth, b.V)
			}
		}(wi == 0)
	}
	wg.Wait()
	res := &Result{
		States:      len(e.visited),
		Transitions: e.trans.Load(),
		Paths:       e.paths.Load(),
		CtlReplays:  e.ctl.Load(),
		MaxDepth:    int(e.maxDep.Load()),
		Outcomes:    e.out,
		CapHit:      e.capHit.Load(),
		Samples:     e.samples,
		Bounds:      b,
		WallS:       time.Since(t0).Seconds(),
	}
	var sigs []string
	for s := range e.viols {
		sigs = append(sigs, s)
	}
	sort.Strings(sigs)
	for _, s := range sigs {
		res.Violations = append(res.Violations, e.viols[s][0])
		res.Candidates = append(res.Candidates, e.viols[s])
	}
	return res
}

// PathIndices maps op names back to alphabet indices (replay files).
func PathIndices(sys *System, names []string) ([]int, error) {
	idx := map[string]int{}
	for i, o := range sys.Ops {
		idx[o.Name] = i
	}
	out := make([]int, len(names))
	for i, n := range names {
		j, ok := idx[n]
		if !ok {
			return nil, fmt.Errorf("unknown op %q", n)
		}
		out[i] = j
	}
	return out, nil
}

// Confirm replays a violation's path sequentially (no forks, no explorer) `times` times and reports
// whether the same signature is reproduced every time.
func Confirm(sys *System, v Violation, times int) (bool, string) {
	path, err := PathIndices(sys, v.Path)
	if err != nil {
		return false, err.Error()
	}
	for i := 0; i < times; i++ {
		_, _, vs, err := Replay(sys, path, true)
		if err != nil {
			return false, "replay error: " + err.Error()
		}
		found := false
		for _, x := range vs {
			if x.Sig == v.Sig {
				found = true
			}
		}
		if !found {
			return false, fmt.Sprintf("replay #%d did not reproduce signature %q (got %d other violations)", i+1, v.Sig, len(vs))
		}
	}
	return true, ""
}
