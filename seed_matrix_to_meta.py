#!/usr/bin/env python3
"""Folds the detection-matrix logs (.gen/matrix*.log, .gen/own*.log: lines `<seed> <check> rc=<n> <t>s viol=<k> <sigs>`) into
seeded/<seed>/meta.json (detected_by) and prints the markdown table used in DESIGN.md section 10."""
import json, glob, re, os, sys
res = {}
for f in sorted(glob.glob('/verif/.gen/matrix*.log') + glob.glob('/verif/.gen/own*.log'), key=os.path.getmtime):
    for line in open(f):
        m = re.match(r'^(\S+) (C\d\d) rc=(\d+) (\d+)s viol=(\d+) ?(.*)$', line.strip())
        if not m: continue
        sid, chk, rc, t, nv, sigs = m.groups()
        res.setdefault(sid, {})[chk] = dict(rc=int(rc), violations=int(nv), first_signatures=[s for s in sigs.split(';') if s][:2])
rows = []
for sid in sorted(res):
    mp = f'/verif/seeded/{sid}/meta.json'
    if not os.path.exists(mp): continue
    meta = json.load(open(mp))
    det = {c: v for c, v in res[sid].items() if v['rc'] == 1}
    err = [c for c, v in res[sid].items() if v['rc'] not in (0, 1)]
    meta['detected_by'] = det
    meta['checks_run'] = sorted(res[sid])
    meta['checks_that_errored'] = err
    json.dump(meta, open(mp, 'w'), indent=1)
    own = meta['breaks_property']
    rows.append(f"| {sid} | {meta['needs_to_manifest'][:150]} | {'**' + own + '**' if own in det else own + ' (MISSED)'} | {', '.join(c for c in sorted(det) if c != own) or '-'} | {', '.join(err) or '-'} |")
print("| seed | what it needs to manifest | own property's check | also reported by | errored |")
print("|------|---------------------------|----------------------|------------------|---------|")
print("\n".join(rows))
