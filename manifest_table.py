NOTES = ("All checks are bounded exhaustive explorations of the real implementation (model checking family): "
         "explicit-state DFS over DeliverTx on a forked deliver state with a Go reference model stepped alongside (E1+E2), "
         "finite input-space products (E3), a cooperative scheduler with preemption bounding for the key store (E4) and a "
         "process-level twin/restart driver (E5). Exit codes: 0 held / only known findings, 1 VIOLATION, 2 harness or build error.")
ENGINES = [
    {"name": "E1 world", "path": "engine/world", "serves_properties": ["C01","C02","C13"], "kind_free_text": "real app.App under a deterministic driver; BaseApp.VerifFork via build overlay"},
    {"name": "E2 explore", "path": "engine/explore", "serves_properties": ["C01","C02","C13"], "kind_free_text": "explicit-state depth/deviation-bounded DFS with canonical store hashing, 16 workers, sequential-replay confirmation"},
]
NOT_CLAIMED = {}
MC = "model_checking"
claim("C01", MC, "explicit-state DFS over real DeliverTx + reference append-only log", "DESIGN.md §3 C01",
      "Every AOL transaction sequence up to the completed depth/deviation bound over a colliding 2-owner/2-topic alphabet (plus next-block, restart, export/import) is executed on the real app; reported offsets, every acknowledged record's query answer and the raw record store are compared with a reference append-only log on every transition and every distinct state.",
      "Bounded: depth and deviation bound as reported in evidence; offsets < 256; 5-entry record menu. Acceptance decisions are judged by C02, followed here.", "E1+E2")
claim("C02", MC, "explicit-state DFS over real ante handler + msg router + reference ACL/authz model", "DESIGN.md §3 C02",
      "Same state graph with forged-signer, fee-payer and authz Grant/Revoke/Exec variants; a transaction must succeed iff the real signatures cover GetSigners and the reference ACL (owner, writer set, grants) allows it; rejected transactions must leave the aol store byte-identical; writer/topic stores equal the model in every state.",
      "Plain key accounts only (no x/group, no governance); GenericAuthorization without expiry.", "E1+E2")
claim("C13", MC, "explicit-state DFS + full pagination request matrix per distinct state", "DESIGN.md §3 C13",
      "AOL graph from the empty state and from a genesis with owners of address length 1/19/21/32/255 and prefix-related topic names; in every distinct state owner/topic counters and the complete pagination matrix (nil, key walk, offset x limit x reverse x count_total) of Topics and Writers are compared with the reference sets.",
      "Owners of unusual length are injected through the real InitChain (they cannot sign).", "E1+E2")
