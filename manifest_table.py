NOTES = ("All checks are bounded exhaustive explorations of the real implementation (model checking family): "
         "explicit-state DFS over DeliverTx on a forked deliver state with a Go reference model stepped alongside (E1+E2), "
         "finite input-space products (E3), a cooperative scheduler with preemption bounding for the key store (E4) and a "
         "process-level twin/restart driver (E5). Exit codes: 0 held / only known findings, 1 VIOLATION, 2 harness or build error.")
ENGINES = [
    {"name": "E1 world", "path": "engine/world", "serves_properties": ["C01","C02","C03","C04","C05","C06","C07","C08","C11","C12","C13","C15"], "kind_free_text": "real app.App under a deterministic driver; BaseApp.VerifFork via build overlay"},
    {"name": "E2 explore", "path": "engine/explore", "serves_properties": ["C01","C02","C03","C04","C05","C06","C07","C08","C11","C12","C13","C15"], "kind_free_text": "explicit-state depth/deviation-bounded DFS with canonical store hashing, 16 workers, sequential-replay confirmation"},
]
NOT_CLAIMED = {}
ENGINES.append({"name": "E5 twin", "path": "checks/twin.go", "serves_properties": ["C09","C10","C19","C20"], "kind_free_text": "raw-history twin/restart driver: in-process second instances with extra ABCI/query calls at every position, child replica processes (GOMAXPROCS 1/16/3), stop/re-open at every ABCI boundary, goleveldb + os.Exit process kills; 16 single-threaded worker processes"})
ENGINES.append({"name": "E3 enum", "path": "checks/msgdom.go", "serves_properties": ["C14","C16","C17","C18"], "kind_free_text": "bounded-exhaustive input products (full Cartesian product or every combination of <= k non-default classes), minimal failing set reporting"})
MC = "model_checking"
claim("C01", MC, "explicit-state DFS over real DeliverTx + reference append-only log", "DESIGN.md §3 C01",
      "Every AOL transaction sequence up to the completed depth/deviation bound over a colliding 2-owner/2-topic alphabet (plus next-block, restart, export/import) is executed on the real app; reported offsets, every acknowledged record's query answer and the raw record store are compared with a reference append-only log on every transition and every distinct state.",
      "Bounded: depth and deviation bound as reported in evidence; offsets < 256; 5-entry record menu. Acceptance decisions are judged by C02, followed here.", "E1+E2")
claim("C02", MC, "explicit-state DFS over real ante handler + msg router + reference ACL/authz model", "DESIGN.md §3 C02",
      "Same state graph with forged-signer, fee-payer and authz Grant/Revoke/Exec variants; a transaction must succeed iff the real signatures cover GetSigners and the reference ACL (owner, writer set, grants) allows it; rejected transactions must leave the aol store byte-identical; writer/topic stores equal the model in every state.",
      "Plain key accounts only (no x/group, no governance); GenericAuthorization without expiry.", "E1+E2")
claim("C13", MC, "explicit-state DFS + full pagination request matrix per distinct state", "DESIGN.md §3 C13",
      "AOL graph from the empty state and from a genesis with owners of address length 1/19/21/32/255 and prefix-related topic names; in every distinct state owner/topic counters and the complete pagination matrix (nil, key walk, offset x limit x reverse x count_total) of Topics and Writers are compared with the reference sets.",
      "Owners of unusual length are injected through the real InitChain (they cannot sign).", "E1+E2")

claim("C03", MC, "explicit-state DFS over real DID handlers + reference registry (independent key resolution + secp256k1 verification)", "DESIGN.md §3 C03",
      "All DID message sequences up to the completed bound over 2 DIDs x 3 keys x 5 document shapes x proof variants (wrong key, demoted key, non-authentication relationship, non-secp256k1 type, wrong sequence, signature over other content), any relayer, plus next-block/restart/export-import; accepted <=> reference registry accepts, rejected => did store byte-identical, store == registry in every state.",
      "No duplicate verification-method ids in the alphabet; relayer accounts never hold DID keys.", "E1+E2")
claim("C04", MC, "explicit-state DFS with replay transitions; canonical state includes the multiset of accepted messages", "DESIGN.md §3 C04",
      "The DID graph extended with Replay(#i): every message accepted earlier on the path is re-submitted (same inner bytes, other relayer) at every later state incl. after further updates, deactivation and control ops; every replay must be rejected; stored and queried sequence equal the reference counter in every state; proofs over seq+-1 are in the alphabet.",
      "Replays index the first three accepted messages of a path (multiset order).", "E1+E2")
claim("C05", MC, "explicit-state DFS with restart and export/import placed after every deactivation (V>=2)", "DESIGN.md §3 C05",
      "DID graph with deviation bound >= 2 so that every deactivated state within the depth bound is also reached through a restart and through genesis export/import; tombstone oracle on store, read operation (NotFound: DID deactivated) and on every later create/update/deactivate.",
      "Same alphabet as C03 plus a create with an empty-id document.", "E1+E2")
claim("C11", MC, "explicit-state DFS with did field / document id / payload chosen independently; state invariant doc.id == key", "DESIGN.md §3 C11",
      "DID graph whose alphabet chooses the did field, the document id and the signed payload independently (direct, authz-Exec wrapped, and Replay(did:=other) of observed accepted messages); invariant in every distinct state: every active entry's document id equals its key and Query/DID(d).document.id == d.",
      "", "E1+E2")

claim("C06", MC, "explicit-state DFS over real PNFT handlers + reference ownership model", "DESIGN.md §3 C06",
      "All sequences of the seven PNFT message types up to the completed bound over 3 accounts, colliding ids (d/dd, t/tt), former owners after hand-over, creators that are no longer owners, forged signers, authz Grant/Exec and an upper-case spelling of an owner address; a message succeeds only if its real signer (or authz granter) is the current owner; refused requests leave the pnft store byte-identical; denoms/tokens/owners equal the reference model in every state, also after export/import.",
      "Mixed-case spellings: safety direction only. Plain key accounts; GenericAuthorization.", "E1+E2")
claim("C12", MC, "explicit-state DFS + full query matrix per distinct state against the reference model", "DESIGN.md §3 C12",
      "PNFT graph with the identifier alphabet widened to prefixes and the x/nft key delimiter (d, dd, d\\0x / t, tt, x\\0t); in every distinct state: PNFT(denom,id) over alphabet x alphabet, PNFTs, PNFTsByDenomOwner x accounts, Denom, Denoms under the full pagination matrix and DenomsByOwner x accounts are compared with the reference model; token metadata immutable; no orphan tokens.",
      "Identifier alphabet of 3 denoms x 3 token ids.", "E1+E2")

EX = "exploration"
claim("C18", EX, "exhaustive enumeration of tuple/byte-string domains; all-pairs prefix property decided by counting byte-prefix ranges", "DESIGN.md §3 C18",
      "All tuples of 0..4 components over a length-byte alphabet (component length <= 2): round trip, injectivity, and prefix-exactness for all ordered pairs and all k; every component length 0..255 (256+ for rejection); every byte string up to length 5 (7 thorough) over {0,1,2,3,255} offered to the decoder; the four typed AOL keys over address lengths 1/20/21/255, all topic names up to length 2 plus 69/70-byte names, boundary offsets, binary and string forms; every typed decoder over a component menu.",
      "All-pairs part bounded to component length <= 2 over a 4-byte (5 thorough) alphabet.", "E3")
claim("C16", EX, "exhaustive product of per-field boundary classes vs hand-written reference validator, plus delivery of rejected messages to the real chain", "DESIGN.md §3 C16",
      "For each of the 14 message types the product of per-field boundary classes (full product or every combination of <= 3/4 non-default classes): ValidateBasic()==nil iff the reference validator written from the published limits accepts; reference-rejected messages (<= 2 non-default fields) are signed by the actor they name and delivered to a populated chain: refused, stores unchanged.",
      "Ambiguous inputs (vertical tab/Unicode spaces in method ids, controller field, absent @context) are left out of the alphabet.", "E3+E1")
claim("C17", EX, "exhaustive shape products for messages, queries and key-store files under recover / ABCI code 111222; minimal failing sets", "DESIGN.md §3 C17",
      "Every message type x every combination of <= 2/3 hostile field shapes: ValidateBasic, GetSigners, GetSignBytes, DeliverTx in three base states; every query type x request-shape product through BaseApp.Query and on the keeper in four states (incl. odd-length owners); key-store file product (version/cipher/kdf/prf/mac/iv/ciphertext/salt/c/dklen x password, MAC made valid where possible) through the real KeyStore.Load; no panic anywhere. EndBlock totality is covered in C07's graph.",
      "Requests are built as Go values and marshalled; wire-level garbage is the codec's business.", "E3+E1")

claim("C14", EX, "exhaustive enumeration of messages over per-field {empty,v1,v2} domains; all ordered pairs decided by grouping on sign bytes; swap deliveries through the real ante handler", "DESIGN.md §3 C14",
      "Every message of the 14 types over a per-field domain {empty where allowed, v1, v2} that passes ValidateBasic; for DIRECT, DIRECT_AUX and LEGACY_AMINO_JSON the sign bytes are grouped (decides all ordered pairs); one swap delivery (signature for m1 on a tx carrying m2) per ordered pair of types and per colliding class against the real chain; sign bytes recomputed in-process and in a child process.",
      "Single-signature transactions; the three sign modes the app's TxConfig enables. Known findings F12/F13 (legacy amino JSON collisions) are listed in known_findings.json and reported as KNOWN-FINDING.", "E3+E1")

claim("C15", EX, "exhaustive enumeration of 1..3-message transactions x fee x signer arrangement on forks of the real deliver state; full bank balance/supply comparison", "DESIGN.md §3 C15",
      "In two base states every transaction of 1..3 messages drawn from {succeeding, failing} x {aol, did, pnft} x fee in {0, 1000umed, 1000umed+5uxyz} x arrangement in {single signer, add-record with named fee payer (signers [F,W]), two signers}: every bank balance and the total supply are compared before/after (only -fee at the payer, +fee at the fee collector); a failed transaction leaves aol/did/pnft stores byte-identical.",
      "Explicit AuthInfo.Fee.payer/granter overrides are left out; zero min gas prices.", "E1")
claim("C07", MC, "explicit-state DFS over deposit histories; real EndBlock executed on a fork in every distinct state; balance/supply arithmetic + crisis invariants", "DESIGN.md §3 C07",
      "All deposit histories up to the completed bound (plain sends incl. dust/huge/second denom, multi-send, creation of four kinds of vesting account at the burn address, unrelated traffic, block boundaries); in every distinct state the real EndBlock runs on a fork: spendable(burn)==0 afterwards, supply shrinks by exactly the spendable amount, no other balance changes, all registered crisis invariants hold, no panic.",
      "Vesting schedules do not unlock within the explored horizon.", "E1+E2")
claim("C08", MC, "explicit-state DFS over a combined 3-module graph; export/validate/InitChain/compare in every distinct state", "DESIGN.md §3 C08",
      "Every distinct state of a combined AOL+DID+PNFT graph (from an empty and a populated base state): export twice byte-identical, custom ValidateGenesis passes, InitChain of a fresh app succeeds, aol/did stores byte-identical and the PNFT query matrix identical on the imported chain, and its own export of the custom sections is byte-identical.",
      "Non-custom module sections are not compared.", "E1+E2")

claim("C09", MC, "exhaustive enumeration of block histories x twin configurations (extra CheckTx/Simulate/query calls at every position, separate processes); equality of every observable at every height", "DESIGN.md §3 C09",
      "Every history of length <= 2 (3 thorough) over a 12-entry mixed alphabet after a populating setup block, as one block and as one block per tx, is executed by node A and by every node-B configuration: second instance, CheckTx/Simulate before every tx, queries between all calls, one (two thorough) extra call at every position, and child processes with GOMAXPROCS 1/16/3 started at a different time; app hash, per-tx code/codespace/data/gas/events, EndBlock events, query answers and committed store hashes must agree at every height.",
      "Atomic unit = ABCI/query call. Go map iteration order cannot be owned by the harness: every execution samples it (stated in evidence). Instruction-level interleavings inside SDK/IAVL are not enumerated.", "E1+E5")
claim("C10", "fault_enumeration", "enumeration of every ABCI-boundary stop point of every history; stop, re-open, compare with the uninterrupted twin; process kills on goleveldb", "DESIGN.md §3 C10",
      "For every history of C09's set and every stop point (after BeginBlock, after every prefix of the block's txs, after EndBlock, after Commit): stop, re-open on the same database (in-process on MemDB for all pairs; real processes on goleveldb killed with os.Exit for every 7th (2nd thorough) history), check LastBlockHeight/LastCommitID/committed stores against the twin, re-execute the rest and compare all hashes and results.",
      "Crash points inside Commit (between DB batches) are SDK/IAVL territory and not enumerated; power-loss semantics out of scope.", "E1+E5")
